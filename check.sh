#!/bin/sh
# ./check.sh setup | <ID> quick|thorough | replay <path>
# Always rebuilds the harness (incrementally) against /repo's current working tree first.
cd "$(dirname "$0")"
export CARGO_NET_OFFLINE=true
export OWLMC_DIR="$(pwd)"
build() {
    (cd owlmc && cargo build --offline --profile verif >"$OWLMC_DIR/.build.log" 2>&1 \
        && cargo build --offline --release >>"$OWLMC_DIR/.build.log" 2>&1) || {
        echo "MACHINERY ERROR: harness build failed (see $OWLMC_DIR/.build.log)" >&2
        tail -n 30 "$OWLMC_DIR/.build.log" >&2
        exit 2
    }
}
BIN=/verif/.target/verif/owlmc
export OWLMC_REL=/verif/.target/release/owlmc
export OWLMC_SRC="$OWLMC_DIR/owlmc"
# optional monitor for C19 thorough: AddressSanitizer build (nightly); absence is not an error
build_asan() {
    (cd owlmc && RUSTFLAGS="-Zsanitizer=address" cargo +nightly build --offline --release \
        --target x86_64-unknown-linux-gnu --target-dir /verif/.target/asan >>"$OWLMC_DIR/.build.log" 2>&1) \
        && export OWLMC_ASAN=/verif/.target/asan/x86_64-unknown-linux-gnu/release/owlmc
}
case "$1" in
setup)
    build
    (cd srx && cargo build --offline --release >>"$OWLMC_DIR/.build.log" 2>&1) || { echo "MACHINERY ERROR: srx build failed" >&2; tail -n 20 "$OWLMC_DIR/.build.log" >&2; exit 2; }
    exec "$BIN" setup
    ;;
replay)
    build
    exec "$BIN" replay "$2"
    ;;
*)
    build
    TIER="${2:-${VERIF_TIER:-quick}}"
    if [ "$1" = "C19" ] && [ "$TIER" = "thorough" ]; then build_asan; fi
    if [ "$1" = "C13" ] || [ "$1" = "C14" ]; then
        # chain properties: the hand-rolled explorer first, then the stateright cross-check of it
        "$BIN" check "$1" "$TIER"
        code=$?
        [ "$code" != "0" ] && exit $code
        (cd srx && cargo build --offline --release >>"$OWLMC_DIR/.build.log" 2>&1) || {
            echo "MACHINERY ERROR: stateright cross-check does not build (see .build.log)" >&2
            exit 2
        }
        /verif/.target/srx/release/srx "$1" "$TIER"
        code=$?
        [ "$code" = "2" ] && echo "MACHINERY ERROR: stateright and the hand-rolled explorer disagree" >&2
        exit $code
    fi
    exec "$BIN" check "$1" "$TIER"
    ;;
esac
