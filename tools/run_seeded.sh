#!/bin/sh
# tools/run_seeded.sh [tier] [SEED ...] : each seeded change against the check of its own property
# (seed directory names are <ID> or R2-<ID>; the property is the trailing C.. part)
cd "$(dirname "$0")/.."
TIER="${1:-quick}"; [ $# -gt 0 ] && shift
SEEDS="$*"; [ -z "$SEEDS" ] && SEEDS=$(ls seeded)
for sd in $SEEDS; do
    [ -f seeded/$sd/patch.diff ] || continue
    id=$(echo "$sd" | sed -E 's/^R[0-9]+-//')
    r=$(tools/mutlab.sh seeded/$sd/patch.diff "$TIER" "$id" 2>&1 | grep -E "^C[0-9]+ exit|DETECTED_BY")
    echo "seed $sd -> $(echo "$r" | tr '\n' ' ' | cut -c1-420)"
done
