#!/bin/sh
# tools/run_seeded.sh [tier] [ID ...] : each seeded change against the check of its own property
cd "$(dirname "$0")/.."
TIER="${1:-quick}"; [ $# -gt 0 ] && shift
IDS="$*"; [ -z "$IDS" ] && IDS=$(ls seeded)
for id in $IDS; do
    [ -f seeded/$id/patch.diff ] || continue
    r=$(tools/try_mutation.sh seeded/$id/patch.diff "$TIER" "$id" 2>&1 | grep -E "^C[0-9]+ exit|DETECTED_BY")
    echo "seed $id -> $(echo "$r" | tr '\n' ' ' | cut -c1-420)"
done
