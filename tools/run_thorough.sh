#!/bin/sh
# sequential thorough sweep; evidence goes to .work/thorough-evidence; log to .work/thorough.log
cd "$(dirname "$0")/.."
mkdir -p .work/thorough-evidence
: > .work/thorough.log
for id in ${*:-C15 C20 C11 C17 C08 C13 C14 C12 C18 C16 C03 C05 C07 C10 C04 C06 C19 C01 C09 C02}; do
    s=$(date +%s)
    out=$(OWLMC_EVIDENCE_DIR=/verif/.work/thorough-evidence OWLMC_BUDGET_S=${BUDGET:-900} ./check.sh $id thorough 2>&1)
    code=$?
    e=$(date +%s)
    echo "== $id exit=$code wall=$((e-s))s" >> .work/thorough.log
    echo "$out" | grep -E "^\[|^C[0-9]+ |VIOLATION|ERROR|violation:" | cut -c1-260 >> .work/thorough.log
done
echo ALLDONE >> .work/thorough.log
