#!/bin/sh
# tools/confirm_seed.sh <ID> [worktree]  - confirm a sub-agent's mutation in its scratch worktree and
# store it under /verif/seeded/<ID>/ (patch.diff, demo test, MUTATION.md, confirm.json)
ID="$1"; WT="${2:-/tmp/wt-$ID}"
OUT=/verif/seeded/${3:-$ID}
mkdir -p "$OUT"
cd "$WT" || exit 2
export CARGO_TARGET_DIR="$WT/target"
git diff -- chess chess_base Cargo.toml > "$OUT/patch.diff"
DEMO=$(ls chess/tests/demo*.rs 2>/dev/null | head -1)
[ -n "$DEMO" ] && cp "$DEMO" "$OUT/"
[ -f MUTATION.md ] && cp MUTATION.md "$OUT/"
DEMONAME=$(basename "$DEMO" .rs)
# with the change: existing tests (everything except the demo target)
WITH=$(cargo test --workspace --offline --no-fail-fast 2>&1)
LIBPASS=$(echo "$WITH" | grep -E "^test result" | awk '{p+=$4; f+=$6} END {print p " " f}')
DEMO_WITH=$(cargo test -p owlchess --offline --test "$DEMONAME" 2>&1 | grep -E "^test result" | head -1)
# without the change
# (never git stash here: the stash is shared between worktrees)
git diff -- chess chess_base Cargo.toml > "$WT/.confirm.patch"
git checkout -- chess/src chess_base/src chess/build.rs chess/Cargo.toml chess_base/Cargo.toml
DEMO_WITHOUT=$(cargo test -p owlchess --offline --test "$DEMONAME" 2>&1 | grep -E "^test result" | head -1)
git apply "$WT/.confirm.patch" && rm -f "$WT/.confirm.patch"
python3 - "$ID" "$LIBPASS" "$DEMO_WITH" "$DEMO_WITHOUT" "$OUT" <<'PY'
import sys,json
id,lib,dw,dwo,out=sys.argv[1:6]
p,f=lib.split()
json.dump({"property":id,"all_test_targets_with_change":{"passed":int(p),"failed":int(f),"note":"failed counts only the demo target's failing tests if the existing suite is intact"},
  "demo_with_change":dw,"demo_without_change":dwo},open(out+"/confirm.json","w"),indent=1)
print(id,"with-change totals passed/failed:",lib,"| demo with:",dw,"| demo without:",dwo)
PY
