#!/bin/sh
# runs every property's check at the given tier (default quick), prints one line each
cd "$(dirname "$0")/.."
TIER="${1:-quick}"
for id in $(python3 -c "import json;print(' '.join(c['property_id'] for c in json.load(open('MANIFEST.json'))['checks']))"); do
    start=$(date +%s.%N)
    out=$(./check.sh "$id" "$TIER" 2>&1)
    code=$?
    end=$(date +%s.%N)
    printf "%s exit=%s %6.1fs  %s\n" "$id" "$code" "$(echo "$end - $start" | bc)" "$(echo "$out" | grep -E "^C[0-9]+ " | tail -1)"
    echo "$out" | grep -E "^(VIOLATION|KNOWN-FINDING|MACHINERY)" | head -3
    echo "$out" | grep -E "^\[C" | awk '{print "      " $0}' | sed -E 's/ +states=/ states=/; s/ +transitions=[0-9]+ +/ /' | awk '{ if ($NF+0 >= 3.0) print }'
done
