#!/bin/sh
# runs every property's check at the given tier (default quick), prints one line each
cd "$(dirname "$0")/.."
TIER="${1:-quick}"
for id in $(python3 -c "import json;print(' '.join(c['property_id'] for c in json.load(open('MANIFEST.json'))['checks']))"); do
    start=$(date +%s.%N)
    out=$(./check.sh "$id" "$TIER" 2>/dev/null)
    code=$?
    end=$(date +%s.%N)
    printf "%s exit=%s %6.1fs  %s\n" "$id" "$code" "$(echo "$end - $start" | bc)" "$(echo "$out" | grep -E "^C[0-9]+ " | tail -1)"
    echo "$out" | grep -E "^(VIOLATION|KNOWN-FINDING)" | head -3
done
