#!/usr/bin/env python3
"""Regenerates /verif/MANIFEST.json from the table below (keeps it valid and current)."""
import json, os, subprocess
here = os.path.dirname(os.path.dirname(os.path.abspath(__file__)))
ids = [json.loads(l)['id'] for l in open(os.path.join(here, 'properties.jsonl'))]

TB = ("trusted base: reference model refchess (independent mailbox implementation of the rules, validated at setup "
      "against published perft tables), the binding layer (public API + listed hooks), rustc/std. ")

CHECKS = {}
def add(i, text, note, tech="explicit-state enumeration of finite universes, lock-step against a reference model"):
    CHECKS[i] = dict(text=text, design_ref=f"DESIGN.md section 5 {i}", note=TB + note, technique=tech)

UNI = ("Universes (each enumerated completely, in a fixed order): M3 = all positions with <=3 men incl. every rights/en-passant variant; RAY = every arrangement of <=2 [thorough 3] men on every ray from every king square; "
       "EP = every en-passant shape x own king anywhere x enemy king x extra man; CASTLE / PROMO = castling and promotion families; REACH(d) = every position within d plies of 22 seeds (dedup on the full position); "
       "COUNTERS = seeds x clocks 0..151, 65533..65535 x move numbers 1, 2, 65534, 65535; thorough adds M4 = all 4-man positions (~1.1e9) and deeper REACH. ")

add('C01', "Explicit-state exploration of the product (reference model x real owlchess): in every state the five legal generators are compared as multisets with the model's legal set and its capture / quiet / promotion subsets, and Move::validate, is_legal_unchecked, TryUnchecked::make / make_raw and make_move_unchecked + is_opponent_king_attacked are compared with model legality for every pseudo-legal move. " + UNI + "Exhaustive within those bounds; beyond them only the small-scope argument of DESIGN.md section 4.",
    "Positions outside the enumerated universes are not decided.")
add('C02', "Every safe entry point (Make::make, Make::make_raw, Board::make_move, MoveChain::push) is driven with move-like values of every kind (Move, uci::Move, Uci(str), san::Move, San(str)): level 2 = all 7,781 well-formed Move values and all 20,481 UCI strings on REACH(1/2) and 30 hand-picked positions, level 1 = all values with an occupied source on REACH(2), level 0 = the values derived from every pseudo-legal move on M3, EP, CASTLE, PROMO, COUNTERS, REACH(3), plus every SAN-alphabet string of <=3 symbols on the 30 positions. Oracle: accepted iff it denotes a model-legal move; result = model successor, identical in all fields (hook H1) to its own re-validation, mover not in check; refusal = Err, no panic, board / chain unchanged in all fields.",
    "SAN denotation = the unique legal move agreeing with the model's descriptor reading of the text; refusal of a uniquely denoting non-canonical SAN text is not judged. Hook H1.")
add('C03', "Every legal transition of M3, EP, CASTLE, PROMO, COUNTERS, REACH(3) [thorough: M4, REACH(4)] is applied with Board::make_move and the resulting raw position is compared field by field (64 squares, side, four rights, en-passant mark, both counters) and as FEN text with the model's apply(), counters clamped at 65535. Run in the checked build (a wrap would be an overflow panic) and again in the release build (a wrap would be a silently wrong value).",
    "The release-configuration leg covers M3, EP(q), CASTLE(q), PROMO(q), COUNTERS and REACH(2/3).")
add('C04', "For every state and every semilegal move (illegal ones included) and the null move: make_move_unchecked / unmake_move_unchecked, TryUnchecked (incl. its internal rollback), Make::make_raw for Move, uci::Move, Uci(str), san::Move, San(str) followed by undo, MoveChain::push + pop; snapshot of every observable (raw fields, hash, colour sets, 13 per-cell sets, combined set via H1) before = after. Plus nested make/unmake depth-first search to depth 3 [4] on ONE mutable board from every seed, compared on the way down with a freshly validated board of the model position and after every undo with the snapshot.",
    "Hook H1. Only getters and is_opponent_king_attacked are called on temporarily invalid boards.", "explicit-state enumeration + nested apply/undo DFS with full-state snapshot oracle")
add('C05', "coherent(b) (stored hash = RawBoard::zobrist_hash(), every stored set = rebuilt from squares) is evaluated in every state, after every legal make and after every unmake of every semilegal move and the null move; successor hash = hash of the model successor validated from scratch; hash unchanged by counter changes; all transpositions inside REACH(4) hash equally (exact position identity as key); single-feature sensitivity decided exhaustively on the key tables (every square x every pair of the 13 cell values, side, every pair of rights one right apart, no-mark + 8 files per side) on 4 base boards.",
    "Hook H1. Collisions between positions that differ in more than one feature are not a violation and are not looked for.")
add('C06', "All 10 x 13 x 64 x 64 tuples through Move::new against the model's geometric predicate; then in every state of the universes the three sets {m in W : is_semilegal}, semilegal::gen_all and the model's pseudo-legal moves are compared (W = all 7,781 well-formed moves, incl. wrong colour / wrong piece), semi_validate = is_semilegal, generated moves are well-formed and name the piece on their source, gen_all = capture + simple and simple = no_promote + promote as multisets, each part = the model's class, and the _into variants (Vec, ArrayVec, MoveList) produce the same sequences.",
    "quick: RAY and EP use the reduced W-scan (occupied sources + empty-source probe set); thorough M4 likewise.")
add('C07', "calc_outcome, calc_draw_simple, has_legal_moves, is_check against the model's tier (forced > mandatory > claimable > none) and applicable-reason set in every state of M3, EP, REACH(3) at each of the clocks 0, 99, 100, 101, 149, 150, 151, 65535, and of MATERIAL (every assignment of {empty, B, b, N, n} to 8 squares of mixed colour x 6 king placements x 6 clocks); thorough adds M4 at clocks 0 and 100 and the full EP family.",
    "Any applicable reason of the highest applicable tier is accepted.")
add('C08', "Board::from_fen(as_fen) = identity in all fields, as_fen = the model writer's canonical six-field record, and the model's independent reader interprets as_fen as the same position, in every state of M3, EP, CASTLE, PROMO, COUNTERS, REACH(3) [thorough M4, REACH(4)]; RawBoard round trip for every rank pattern over {empty, P, k} in each rank slot, every rank-consistent en-passant mark with / without pawn x 16 rights values, both counters over all 65,536 values; parse-format-parse stability for every accepted string of a 2.7M-string FEN field product and of all single-edit neighbours of 40 canonical records.",
    "Independent FEN reader / writer of the reference model.")
add('C09', "Move::san / styled (San, SanUtf8, Uci) = the model's SAN writer (minimal disambiguation among LEGAL candidates, marks from the model successor), texts distinct, from_san(text) = the move, san::Move parse(format) = identity, SAN refused for illegal moves, for every (state, legal move) of M3, RAY, EP, CASTLE, PROMO, SANAMB (3 [4] same pieces anywhere, thorough with pinners), REACH(3). Parsing soundness: every single-edit neighbour of every canonical text (REACH(2), EP), all 576 abbreviated pawn-capture texts, and every string of <=5 [6] symbols over a 28-symbol class alphabet on 30 positions: a returned move must be model-legal, agree with the model's descriptor reading (piece, destination, origin hints, promotion), and |agreeing legal moves| must be 1.",
    "Texts the permissive descriptor reader cannot read but owlchess accepts are checked for legality only (counted).")
add('C10', "Every semilegal move of every state: to_string = model UCI text and from_uci(text) = the move (kind included), uci::Move round trip; acceptance: all 20,480 strings + 0000 on every REACH(2) state, all strings with occupied source (+ the lowest empty square) on M3, EP, CASTLE, PROMO [thorough REACH(3)]: from_uci_semilegal / from_uci_legal / Uci(str).make succeed iff the model has a pseudo-legal / legal move with that (source, destination, promotion) and return that move; 0000 refused by all playing entry points.",
    "Strings with an empty source square other than the probe are refused by the same early exit and are enumerated completely only on REACH(2).")
add('C11', "Board::try_from and Board::from_fen against the model's validate() on RAW(a) every board with <=2 [3] occupied squares of all 12 kinds x 2 sides x rights / mark variants, RAW(b) the six home squares x {empty, K, R, k, r, N} x 16 rights x 2 sides, RAW(c) an en-passant mark on each of the 64 squares x neighbourhood contents, RAW(d) men counts 0..20 per side, plus every state of the standard universes: Ok iff model Ok; error reason in the model's SET of conditions that hold; result = model normal form; coherent; validating the result again is the identity in all fields.",
    "Any member of the set of conditions that hold is accepted as the reported reason.")
add('C12', "Every call under catch_unwind in a child process: all strings of <=6 [7] symbols over a 28-symbol SAN class alphabet and <=6 [7] over a 19-symbol UCI alphabet (incl. 2-, 3-, 4-byte characters) through the from_str parsers, <=5 [6] on 4 positions through Move::from_uci*, Uci.make, Move::from_san; Coord / Cell / Color / CastlingRights over all strings of <=3 symbols of a 30-symbol alphabet and every single char; all single-edit neighbours of the 64 square names, all 20,481 UCI strings, every canonical SAN text of 30 positions, 40 FEN records; a 2.7M-string FEN field product; move lists: all token sequences of length <=3 over per-position token classes x 6 separators x 3 paddings on 12 positions (reported position = moves applied). Oracle: no panic / abort; parse(format(v)) = v for every accepted value.",
    "Decided up to the stated string bounds only; not for all Rust strings.", "exhaustive bounded string enumeration with fault (panic/abort) interception")
add('C13', "Breadth-first search over chain states of 9 mini-games (key = accepted moves + stored outcome) with the real MoveChain carried along each path; alphabet: push as Move / uci::Move / Uci(str) / San(str) (legal, illegal, garbage), push_uci_list, pop, set_auto_outcome x 3 filters, clear_outcome, reset_outcome. After every operation the real chain is compared in full (current board in all fields, moves, undo records, repetition table via H3, outcome, start) with a fresh chain replaying the accepted moves, with the model chain, and - when a state is reached again by another history - with the first history's chain; plus every operation word of length <=8 [10] over a 6+2 symbol alphabet without merging; plus == on every pair of 362 chains.",
    "Hooks H1 and H3. push on a finished chain is an asserted precondition and outside the alphabet.", "explicit-state BFS over operation sequences with differential (cross-history) and reference-model oracles")
add('C14', "Same exploration as C13 (G1 reaches fivefold repetition at ply 16; look-alike positions that differ only in castling rights or en-passant mark; clocks at 98 / 148; K v K; lines into mate and stalemate): in every chain state calc_outcome is compared with the model's tier and applicable reasons computed from exact position identities of the whole history, the occurrence count (H3) with the model's, set_auto_outcome(filter) stores iff the outcome passes and returns what it stored; Outcome::passes / is_force / winner over the full table of 22 outcomes x 3 filters.",
    "Hook H3. Any applicable reason of the highest applicable tier is accepted.", "explicit-state BFS over game histories against a reference model of repetition counting")
add('C15', "Through hook H2, on the tables of the build under test: rook / bishop lookups for every square x every subset of the square's GEOMETRIC ray set (1.1M subsets in total) = model ray walk; stored pre-mask inside the geometric rays, post-mask containing them; insensitivity to every off-ray square and to the complete off-ray complement; lookup index inside the table; king / knight / pawn sets = geometric offsets; alignment predicates for all 64 x 64 pairs and strictly-between sets for all aligned pairs in both orders.",
    "Extension to all 2^64 occupancies rests on the lookup reading the occupancy only through `occupied & mask` (read from attack.rs) plus the checked mask inclusion and the black-box insensitivity probes. Non-aligned strictly-between results are outside the contract and not judged.", "exhaustive table enumeration against a geometric model")
add('C16', "cell_attackers = model attacker set and is_cell_attacked = non-empty for every state x 64 squares x 2 colours (own-occupied targets included), is_check / checkers = model, on M3, RAY, EP, CASTLE, PROMO, REACH(3) [thorough M4, RAY(3), REACH(4)].",
    "")
add('C17', "For 9,051 [more] chains (all lines of <=4 [5] plies of a knights-and-pawn game, all lines of K+R v K with either side first, all special-move lines - castling both sides, en passant, promotion, capture-promotion - from three seeds and their colour mirrors at move numbers 1 and 12): every walker word over {next, prev, start, end} of length <=6 [8] without merging returns (position before move i in all fields, move i) per a plain cursor model, pos()/len() follow, chain untouched; from_uci_list(uci()) rebuilds an equal chain; styled() for 5 number policies x 3 styles x 2 status policies x 4 stored outcomes = the model printer's text.",
    "Model printer = standard movetext conventions. Hook H1/H3 for comparing chains in full.", "exhaustive enumeration of operation words against a cursor model + model printer")
add('C18', "Metamorphic, implementation against itself: for every state of M3, EP, CASTLE, PROMO, REACH(3) [thorough M4] the colour-swapped vertical mirror validates, its legal moves are the mirror images (kind-preserving), is_check / has_legal_moves equal, calc_outcome equal with the winner swapped, successor of the mirrored move = mirror of the successor; for states without castling rights the same with the left-right mirror.",
    "Only the mirroring maps and the binding layer are trusted; no reference model.", "exhaustive metamorphic enumeration")
add('C19', "(a) every table index computation over its whole input domain (magic lookups for every square x every subset of its rays x {plain, off-ray complement} with the landing index reported by H2; all direct tables); (b) a sweep of every generator and query (10 generators, cell_attackers x 128, has_legal_moves, is_check, calc_outcome, validate, make/unmake, SAN / UCI round trips) over M3, RAY, EP, CASTLE, PROMO, REACH(3), MAXMOB in the checked build (std ub_checks + arrayvec capacity assertion armed; an abort is located through crash-case slots) and again in the release build, both against the model; (c) semilegal move count through a safe unbounded sink <= 256 in every explored state, incl. the 1- [2-]step relocation / re-typing neighbourhood of the best known high-mobility positions (max seen 242).",
    "The universal 256 bound is NOT decidable by bounded enumeration; claimed only for the explored states. ptr::add's ub_check covers address overflow only, hence H2 for lookup bounds.", "exhaustive enumeration under two build configurations with abort interception")
add('C20', "Complete enumeration of every value of every finite type (index <-> value <-> char <-> string round trips, accessors, named constants), from_char over all 1,112,064 chars, FromStr over all 0-2 byte ASCII strings and all castling strings of <=5 symbols over {K,Q,k,q,-,x}, checked constructors over indices 0..=300 + usize extremes (rejection observed as the documented panic), Coord::add / shift; bitboards against BTreeSet<u8>: unary operations on all sets of <=3 squares and complements, byte-confined sets and constants, binary operations on all pairs of sets of <=2 squares (one side also complemented) and byte-confined pairs, deposit_bits over all masks of <=3 bits and byte-confined masks; constants and geometry against integer geometry.",
    "64-bit sets are not sampled: the operations are bitwise, so small sets and their complements exercise every bit position in every role.", "exhaustive enumeration of finite types against set / integer models")

hooks_commits = subprocess.run(['git', '-C', '/repo', 'log', '--format=%h %s'], capture_output=True, text=True).stdout.splitlines()
hook_ids = [l.split()[0] for l in hooks_commits if 'verif hook' in l]

m = {
 "version": 1,
 "setup_cmd": "./setup.sh",
 "hooks": {
   "guard": "cargo feature `verif_hooks` of crate owlchess (chess/Cargo.toml); all hook code is under #[cfg(feature = \"verif_hooks\")]",
   "enable": "the harness crate /verif/owlmc depends on owlchess = { path = \"/repo/chess\", features = [\"verif_hooks\"] }, so every build uses /repo's working tree with hooks on",
   "baseline_off_cmd": "cd /repo && cargo test --workspace --no-fail-fast --offline",
   "source_commits": hook_ids[::-1],
   "add_only": True,
 },
 "engines": [
   {"name": "owlmc", "path": "owlmc/", "serves_properties": sorted(CHECKS.keys()),
    "kind_free_text": "hand-rolled explicit-state explorer in Rust: enumerates finite universes of positions / raw boards / strings / operation words completely and deterministically, drives the real owlchess objects in lock-step with an independent reference model (refchess), checks invariants and model agreement in every state and on every transition; child-process isolation + crash-case slots so aborts inside owlchess become replayable violations"},
 ],
 "checks": [],
 "notes": "See DESIGN.md. quick = every universe at its quick bound (<1 min); thorough = deeper bounds (up to ~30 min). Exit 0 held / 1 violation (VIOLATION line + replay file) / 2 machinery error.",
 "not_applicable": [],
}
for i in ids:
    if i in CHECKS:
        c = CHECKS[i]
        m["checks"].append({
          "property_id": i,
          "quick_cmd": f"./check.sh {i} quick",
          "thorough_cmd": f"./check.sh {i} thorough",
          "evidence_file": f"/verif/evidence/{i}.json",
          "replay_cmd_template": "./check.sh replay {path}",
          "engine": "owlmc",
          "level_claimed": {"category": "model_checking", "text": c['text'], "design_ref": c['design_ref']},
          "level_note": c['note'],
          "technique": c['technique'],
        })
    else:
        m["not_applicable"].append({"property_id": i, "reason": "check not built yet (work in progress, DESIGN.md section 12); will be decided by the same explicit-state exploration"})
json.dump(m, open(os.path.join(here, 'MANIFEST.json'), 'w'), indent=1)
print("checks:", len(m["checks"]), "not_applicable:", len(m["not_applicable"]))
