#!/usr/bin/env python3
"""Regenerates /verif/MANIFEST.json from the table below (keeps it valid and current)."""
import json, os, subprocess
here = os.path.dirname(os.path.dirname(os.path.abspath(__file__)))
ids = [json.loads(l)['id'] for l in open(os.path.join(here, 'properties.jsonl'))]

TB = ("trusted base: reference model refchess (independent mailbox implementation of the rules, validated at setup "
      "against published perft tables), the binding layer (public API + listed hooks), rustc/std. ")

CHECKS = {
 'C01': dict(
   text="Explicit-state exploration of the product (reference model x real owlchess): in every state of the listed universes "
        "(all <=3-man positions; every arrangement of <=2 [thorough 3] men on every king ray; every en-passant shape x king placements x extra man; "
        "castling and promotion families; everything within 3 [thorough 4] plies of 22 seeds; thorough: all 4-man positions) the five legal generators are compared "
        "as multisets with the model's legal set, and validate / is_legal_unchecked / TryUnchecked / make+is_opponent_king_attacked with model legality of every pseudo-legal move. "
        "Exhaustive within those bounds; beyond them only the small-scope argument.",
   design_ref="DESIGN.md section 5 C01",
   note=TB + "Positions outside the enumerated universes are not decided.",
   technique="explicit-state enumeration, lock-step against a reference model"),
}

hooks_commits = subprocess.run(['git', '-C', '/repo', 'log', '--format=%h %s'], capture_output=True, text=True).stdout.splitlines()
hook_ids = [l.split()[0] for l in hooks_commits if 'verif hook' in l]

m = {
 "version": 1,
 "setup_cmd": "./setup.sh",
 "hooks": {
   "guard": "cargo feature `verif_hooks` of crate owlchess (chess/Cargo.toml); all hook code is under #[cfg(feature = \"verif_hooks\")]",
   "enable": "the harness crate /verif/owlmc depends on owlchess = { path = \"/repo/chess\", features = [\"verif_hooks\"] }, so every build uses /repo's working tree with hooks on",
   "baseline_off_cmd": "cd /repo && cargo test --workspace --no-fail-fast --offline",
   "source_commits": hook_ids[::-1],
   "add_only": True,
 },
 "engines": [
   {"name": "owlmc", "path": "owlmc/", "serves_properties": sorted(CHECKS.keys()),
    "kind_free_text": "hand-rolled explicit-state explorer in Rust: enumerates finite universes of positions / raw boards / strings / operation words completely and deterministically, drives the real owlchess objects in lock-step with an independent reference model (refchess), checks invariants and model agreement in every state and on every transition; child-process isolation + crash-case slots so aborts inside owlchess become replayable violations"},
 ],
 "checks": [],
 "notes": "See DESIGN.md. quick = every universe at its quick bound (<1 min); thorough = deeper bounds (up to ~30 min). Exit 0 held / 1 violation (VIOLATION line + replay file) / 2 machinery error.",
 "not_applicable": [],
}
for i in ids:
    if i in CHECKS:
        c = CHECKS[i]
        m["checks"].append({
          "property_id": i,
          "quick_cmd": f"./check.sh {i} quick",
          "thorough_cmd": f"./check.sh {i} thorough",
          "evidence_file": f"/verif/evidence/{i}.json",
          "replay_cmd_template": "./check.sh replay {path}",
          "engine": "owlmc",
          "level_claimed": {"category": "model_checking", "text": c['text'], "design_ref": c['design_ref']},
          "level_note": c['note'],
          "technique": c['technique'],
        })
    else:
        m["not_applicable"].append({"property_id": i, "reason": "check not built yet (work in progress, DESIGN.md section 12); will be decided by the same explicit-state exploration"})
json.dump(m, open(os.path.join(here, 'MANIFEST.json'), 'w'), indent=1)
print("checks:", len(m["checks"]), "not_applicable:", len(m["not_applicable"]))
