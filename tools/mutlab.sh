#!/bin/sh
# tools/mutlab.sh <patch.diff> [tier] [ID ...]
# Like try_mutation.sh, but never touches /repo: copies /repo and the harness into a scratch lab
# (default /tmp/mutlab, removable at any time), applies the patch there, builds the harness copy
# against the patched copy with its own target dir, and runs the given checks.
PATCH="$(realpath "$1")"; shift
TIER="${1:-quick}"; [ $# -gt 0 ] && shift
IDS="$*"
LAB="${MUTLAB:-/tmp/mutlab}"
V="$(cd "$(dirname "$0")/.." && pwd)"
[ -z "$IDS" ] && IDS=$(python3 -c "import json;print(' '.join(c['property_id'] for c in json.load(open('$V/MANIFEST.json'))['checks']))")
mkdir -p "$LAB/out"
rsync -a --delete --exclude target --exclude .git /repo/ "$LAB/repo/"
rsync -a --delete --exclude .cargo "$V/owlmc/" "$LAB/owlmc/"
sed -i "s|/repo/|$LAB/repo/|g" "$LAB/owlmc/Cargo.toml"
mkdir -p "$LAB/owlmc/.cargo"
printf '[net]\noffline = true\n[build]\ntarget-dir = "%s/target"\n' "$LAB" > "$LAB/owlmc/.cargo/config.toml"
cp "$V/known_findings.json" "$LAB/out/" 2>/dev/null
(cd "$LAB/repo" && git apply "$PATCH") || { echo "patch does not apply"; exit 2; }
# rsync restores files with their old mtimes, which cargo's rerun-if-changed would take for
# "unchanged": force the build script and every source to be looked at again
rm -rf "$LAB"/target/verif/build/owlchess-* "$LAB"/target/release/build/owlchess-* "$LAB"/target/verif/.fingerprint/owlchess-* "$LAB"/target/release/.fingerprint/owlchess-*
find "$LAB/repo" -name '*.rs' -exec touch {} +
(cd "$LAB/owlmc" && cargo build --offline --profile verif >"$LAB/build.log" 2>&1 && cargo build --offline --release >>"$LAB/build.log" 2>&1) || { echo "BUILD FAILED"; tail -5 "$LAB/build.log"; echo "DETECTED_BY: (build failed)"; exit 2; }
DET=""
for id in $IDS; do
    out=$(OWLMC_DIR="$LAB/out" OWLMC_REL="$LAB/target/release/owlmc" CARGO_NET_OFFLINE=true "$LAB/target/verif/owlmc" check "$id" "$TIER" 2>&1)
    code=$?
    v=$(echo "$out" | grep -c "^VIOLATION")
    first=$(echo "$out" | grep -m1 "violation:" | cut -c1-300)
    printf "%s exit=%s violations_reported=%s %s\n" "$id" "$code" "$v" "$first"
    [ "$code" = "1" ] && DET="$DET $id"
done
echo "DETECTED_BY:$DET"
