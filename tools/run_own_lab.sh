#!/bin/sh
# tools/run_own_lab.sh : every own mutation (mutations/own/*.diff) against the checks named in its
# .props file (or its target list below), in a scratch lab (tools/mutlab.sh); one line per patch
cd "$(dirname "$0")/.."
for d in mutations/own/*.diff; do
    n=$(basename "$d" .diff)
    if [ -f "mutations/own/$n.props" ]; then props=$(cat "mutations/own/$n.props"); else
        case "$n" in 25_*) props="C13 C14";; 26_*) props="C12";; *) props="";; esac
    fi
    [ -z "$props" ] && continue
    r=$(tools/mutlab.sh "$d" quick $props 2>&1 | grep -E "DETECTED_BY|BUILD FAILED|patch does not apply" | tr '\n' ' ')
    echo "$n targets:[$props] $r"
done
