#!/bin/sh
# tools/run_matrix.sh : every seeded change and every own mutation against a set of checks (quick
# tier, scratch lab), one line per patch in .work/matrix.log: which checks report it
cd "$(dirname "$0")/.."
CHECKS="${CHECKS:-C01 C02 C03 C04 C05 C06 C07 C08 C09 C10 C11 C12 C13 C14 C15 C16 C17 C18 C19 C20}"
: > .work/matrix.log
for p in ${PATCHES:-seeded/*/patch.diff mutations/own/*.diff}; do
    name=$(echo "$p" | sed 's|seeded/||; s|/patch.diff||; s|mutations/own/||; s|.diff||')
    r=$(MUTLAB=/tmp/mutlab-matrix OWLMC_BUDGET_S=${BUDGET:-25} tools/mutlab.sh "$p" quick $CHECKS 2>&1 | grep "DETECTED_BY")
    echo "$name $r" >> .work/matrix.log
done
echo ALLDONE >> .work/matrix.log
