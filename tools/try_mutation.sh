#!/bin/sh
# tools/try_mutation.sh <patch.diff> [tier] [ID ...]
# Applies a patch to /repo's working tree, runs the given checks (default: all, quick), prints which
# report a violation, and restores /repo (git checkout -- . ; removes untracked files the patch added).
PATCH="$(realpath "$1")"; shift
cd "$(dirname "$0")/.."
TIER="${1:-quick}"; [ $# -gt 0 ] && shift
IDS="$*"
[ -z "$IDS" ] && IDS=$(python3 -c "import json;print(' '.join(c['property_id'] for c in json.load(open('MANIFEST.json'))['checks']))")
if [ -n "$(git -C /repo status --porcelain)" ]; then echo "/repo working tree not clean"; exit 2; fi
git -C /repo apply "$PATCH" || { echo "patch does not apply"; exit 2; }
trap 'git -C /repo checkout -- . ; git -C /repo clean -fdq' EXIT INT TERM
DET=""
for id in $IDS; do
    out=$(OWLMC_EVIDENCE_DIR=/verif/.work/mut-evidence ./check.sh "$id" "$TIER" 2>&1)
    code=$?
    v=$(echo "$out" | grep -c "^VIOLATION")
    first=$(echo "$out" | grep -m1 "violation:" | cut -c1-300)
    printf "%s exit=%s violations_reported=%s %s\n" "$id" "$code" "$v" "$first"
    [ "$code" = "1" ] && DET="$DET $id"
done
echo "DETECTED_BY:$DET"
