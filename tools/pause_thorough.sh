#!/bin/sh
# tools/pause_thorough.sh stop|cont : pause / resume a background thorough sweep (for timing quick tiers)
SIG=STOP; [ "$1" = "cont" ] && SIG=CONT
for p in $(ps -eo pid,args | grep -E "run_thoroug[h]|owlmc (check|run|leg) C[0-9]+ thorough" | awk '{print $1}'); do kill -$SIG $p 2>/dev/null; done
ps -eo pid,stat,args | grep -E "run_thoroug[h]|owlmc (check|run|leg) C[0-9]+ thorough" | awk '{print $1, $2, $5, $6, $7}'
