#!/bin/sh
# Offline build of the harness (both configurations) + model self-validation.
set -e
cd "$(dirname "$0")"
exec ./check.sh setup
