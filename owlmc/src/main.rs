#![allow(dead_code)]
//! owlmc - explicit-state model checking of owlchess against a reference model.
//!
//!   owlmc setup                 model self-validation (published perft tables)
//!   owlmc check <ID> <tier>     run a property check in a child process, triage crashes
//!   owlmc run <ID> <tier>       (child) explore, write evidence + replay files
//!   owlmc replay <path>         re-execute one recorded case, without the explorer

mod bind;
mod engine;
mod model;
mod props;
mod universe;

use engine::*;
use serde_json::{json, Value};
use std::process::{Command, ExitCode};

fn verif_dir() -> String {
    std::env::var("OWLMC_DIR").unwrap_or_else(|_| "/verif".to_string())
}

fn tier_of(s: &str) -> Option<Tier> {
    match s {
        "quick" => Some(Tier::Quick),
        "thorough" => Some(Tier::Thorough),
        _ => None,
    }
}

fn load_known() -> Vec<Value> {
    let path = format!("{}/known_findings.json", verif_dir());
    match std::fs::read_to_string(&path) {
        Ok(s) => serde_json::from_str::<Value>(&s)
            .ok()
            .and_then(|v| v.get("findings").and_then(|f| f.as_array().cloned()))
            .unwrap_or_default(),
        Err(_) => vec![],
    }
}

/// an open known finding matches when the property is the same and its `match` string is
/// contained in the case key (the compact JSON of the case)
fn known_match<'a>(known: &'a [Value], id: &str, key: &str) -> Option<&'a Value> {
    known.iter().find(|k| {
        k.get("status").and_then(|s| s.as_str()) == Some("open")
            && k.get("property").and_then(|s| s.as_str()) == Some(id)
            && k.get("match")
                .and_then(|s| s.as_str())
                .map(|m| !m.is_empty() && key.contains(m))
                .unwrap_or(false)
    })
}

fn write_evidence(run: &Run, violations: u64, extra: Value) {
    let dir = std::env::var("OWLMC_EVIDENCE_DIR").unwrap_or_else(|_| format!("{}/evidence", verif_dir()));
    let _ = std::fs::create_dir_all(&dir);
    let mut counters = serde_json::Map::new();
    for (i, n) in run.counter_names.iter().enumerate() {
        counters.insert(n.to_string(), json!(run.total.cnt[i]));
    }
    let mut samples = run.total.samples.clone();
    if samples.is_empty() {
        samples.push(json!("(no sample recorded)"));
    }
    let mut coverage = json!({
        "states": run.total.states.max(1),
        "transitions": run.total.transitions.max(1),
        "traces_validated_against_impl": run.total.traces,
        "evaluations": run.total.states.max(1),
        "samples": samples,
        "exhaustive": run.exhaustive,
        "rule": "every element of each listed universe is enumerated in a fixed order (no sampling); a state is a (model position | raw board | string | chain | table argument) in canonical form, a transition is one operation replayed on the real owlchess object and compared with the reference model",
        "universes": run.universes,
        "counters": counters,
        "caps_hit": run.caps,
        "notes": run.notes,
        "build": if run.release_build { "release (no debug assertions)" } else { "verif (opt-level 3 + debug assertions + overflow checks: std ub_checks armed)" },
    });
    if let (Some(c), Some(e)) = (coverage.as_object_mut(), extra.as_object()) {
        for (k, v) in e {
            c.insert(k.clone(), v.clone());
        }
    }
    let ev = json!({
        "property_id": run.id,
        "tier": if run.tier == Tier::Quick { "quick" } else { "thorough" },
        "seed": run.seed,
        "level": "model_checking",
        "coverage": coverage,
        "assumptions": run.assumptions,
        "wall_s": (run.start.elapsed().as_secs_f64() * 100.0).round() / 100.0,
        "violations": violations,
    });
    let path = format!("{}/{}.json", dir, run.id);
    std::fs::write(&path, serde_json::to_string_pretty(&ev).unwrap()).expect("write evidence");
}

fn write_replay(id: &str, n: usize, case: &Value, msg: &str) -> String {
    let dir = format!("{}/replays/{}", verif_dir(), id);
    let _ = std::fs::create_dir_all(&dir);
    let path = format!("{}/violation-{}.json", dir, n);
    let v = json!({"property": id, "case": case, "message": msg});
    std::fs::write(&path, serde_json::to_string_pretty(&v).unwrap()).expect("write replay");
    path
}

fn replay_case(prop: &props::Prop, case: &Value) -> Vec<String> {
    let mut ctx = Ctx::new();
    ctx.vcap = 10_000;
    bind_slot();
    match guarded(|| (prop.replay)(case, &mut ctx)) {
        Ok(()) => ctx.viol.iter().map(|v| v.msg.clone()).collect(),
        Err(m) => vec![format!("panic: {}", m)],
    }
}

fn cmd_run(id: &str, tier: Tier) -> u8 {
    let prop = match props::find(id) {
        Some(p) => p,
        None => {
            eprintln!("unknown property {}", id);
            return 2;
        }
    };
    install_panic_hook();
    if let Ok(p) = std::env::var("OWLMC_CRASH_FILE") {
        install_crash_handler(&p);
    }
    let mut run = Run::new(prop.id, tier);
    (prop.run)(&mut run);

    // triage: replay each recorded violation twice, require identical observations
    let known = load_known();
    let mut printed_known: Vec<String> = Vec::new();
    let mut unknown = 0u64;
    let mut lines = Vec::new();
    let _ = std::fs::remove_dir_all(format!("{}/replays/{}", verif_dir(), id));
    let viols = run.total.viol.clone();
    let mut replayed: std::collections::HashMap<String, bool> = std::collections::HashMap::new();
    for (n, v) in viols.iter().enumerate() {
        let key = case_key(&v.case);
        let replayable = v
            .case
            .get("kind")
            .and_then(|k| k.as_str())
            .map(|k| k != "shard" && k != "section")
            .unwrap_or(false);
        if replayable && v.case.get("config").and_then(|c| c.as_str()) == Some("release") && cfg!(debug_assertions) {
            // found by the release-configuration leg: replay it with the release binary
            let path = write_replay(id, n, &v.case, &v.msg);
            let mut fails = 0;
            if let Ok(rel) = std::env::var("OWLMC_REL") {
                for _ in 0..2 {
                    if let Ok(st) = Command::new(&rel).args(["replay", &path]).stdout(std::process::Stdio::null()).status() {
                        if !matches!(st.code(), Some(0) | Some(2)) {
                            fails += 1;
                        }
                    }
                }
            }
            if fails != 2 {
                eprintln!("MACHINERY ERROR: release-configuration violation did not reproduce twice: {}", key);
                return 2;
            }
        } else if replayable && !replayed.contains_key(&key) {
            replayed.insert(key.clone(), true);
            let r1 = replay_case(prop, &v.case);
            let r2 = replay_case(prop, &v.case);
            if r1 != r2 {
                eprintln!(
                    "MACHINERY ERROR: replay of {} diverged: {:?} vs {:?}",
                    key, r1, r2
                );
                return 2;
            }
            if r1.is_empty() {
                eprintln!(
                    "MACHINERY ERROR: violation did not reproduce on replay: {} ({})",
                    key, v.msg
                );
                return 2;
            }
        }
        if let Some(k) = known_match(&known, id, &key) {
            let what = k.get("what").and_then(|s| s.as_str()).unwrap_or("");
            let line = format!("KNOWN-FINDING: property={} {}", id, what);
            if !printed_known.contains(&line) {
                printed_known.push(line);
            }
            continue;
        }
        unknown += 1;
        let path = write_replay(id, n, &v.case, &v.msg);
        lines.push(format!("VIOLATION property={} replay={}", id, path));
        eprintln!("  violation: {} :: {}", key, v.msg);
    }
    // violations beyond the recorded ones cannot be matched against known findings one by one;
    // they count as unknown only if some recorded one was unknown or none was recorded
    if run.total.nviol > viols.len() as u64 && unknown == 0 && printed_known.is_empty() {
        unknown += run.total.nviol - viols.len() as u64;
    }
    write_evidence(&run, run.total.nviol, json!({}));
    for l in &printed_known {
        println!("{}", l);
    }
    for l in &lines {
        println!("{}", l);
    }
    println!(
        "{} {}: states={} transitions={} traces_validated={} violations={} exhaustive={} wall={:.1}s",
        id,
        if tier == Tier::Quick { "quick" } else { "thorough" },
        run.total.states,
        run.total.transitions,
        run.total.traces,
        run.total.nviol,
        run.exhaustive,
        run.start.elapsed().as_secs_f64()
    );
    if run.total.states == 0 {
        eprintln!("MACHINERY ERROR: vacuous exploration (0 states)");
        return 2;
    }
    if unknown > 0 {
        1
    } else {
        0
    }
}

fn crash_case(tag: u8, payload: &[u8]) -> Option<Value> {
    match tag {
        1 if payload.len() >= 78 => Some(case_pos(&pos_from_bytes(payload), "crash")),
        2 if payload.len() >= 78 => {
            let p = pos_from_bytes(payload);
            let r = model::RawPos {
                b: p.b,
                stm: p.stm,
                cr: p.cr,
                eps: p.ep,
                hmc: p.hmc,
                fmn: p.fmn,
            };
            Some(case_raw(&r, "crash"))
        }
        3 if !payload.is_empty() => Some(json!({
            "kind": "str",
            "parser": payload[0],
            "text_bytes": payload[1..].to_vec(),
            "what": "crash",
        })),
        4 => Some(json!({"kind": "opaque", "bytes": payload.to_vec(), "what": "crash"})),
        7 if payload.len() >= 7 => Some(json!({"kind": "longstr", "parser": payload[0], "sym": payload[1], "stem": payload[2], "shape": payload[3],
            "k": payload[4] as usize | (payload[5] as usize) << 8 | (payload[6] as usize) << 16, "what": "crash"})),
        6 if payload.len() >= 9 => {
            let w = |i: usize| u16::from_le_bytes([payload[1 + 2 * i], payload[2 + 2 * i]]);
            Some(json!({"kind": "chainline", "family": payload[0], "idx": w(0), "a": w(1), "b": w(2), "max": w(3), "what": "crash"}))
        }
        5 if payload.len() >= 80 => {
            let root = pos_from_bytes(payload);
            let path: Vec<String> = payload[80..]
                .chunks(3)
                .filter(|c| c.len() == 3)
                .map(|c| model::text::uci(model::Mv { from: c[0], to: c[1], promo: c[2], flag: 0 }))
                .collect();
            Some(json!({"kind": "hist", "fen": model::text::fen(&root), "path": path, "what": "crash"}))
        }
        _ => None,
    }
}

fn cmd_check(id: &str, tier: Tier) -> u8 {
    let exe = std::env::current_exe().expect("current_exe");
    let work = format!("{}/.work", verif_dir());
    let _ = std::fs::create_dir_all(&work);
    let crash = format!("{}/crash-{}.bin", work, id);
    let _ = std::fs::remove_file(&crash);
    let _ = std::fs::remove_file(format!("{}/{}.json", std::env::var("OWLMC_EVIDENCE_DIR").unwrap_or_else(|_| format!("{}/evidence", verif_dir())), id));
    let tier_s = if tier == Tier::Quick { "quick" } else { "thorough" };
    let start = std::time::Instant::now();
    let status = Command::new(&exe)
        .args(["run", id, tier_s])
        .env("OWLMC_CRASH_FILE", &crash)
        .status();
    let status = match status {
        Ok(s) => s,
        Err(e) => {
            eprintln!("MACHINERY ERROR: cannot spawn child: {}", e);
            return 2;
        }
    };
    match status.code() {
        Some(0) => return 0,
        Some(1) => return 1,
        Some(2) => return 2,
        _ => {}
    }
    // the child died: an abort / fault inside an owlchess call. Locate the case.
    eprintln!("[{}] child terminated abnormally ({:?}); locating the case", id, status);
    let cands = decode_crash(&crash);
    let mut n = 0;
    for (tag, payload) in cands {
        let case = match crash_case(tag, &payload) {
            Some(c) => c,
            None => continue,
        };
        let path = write_replay(id, 900 + n, &case, "child process aborted while this case was being explored");
        n += 1;
        let mut crashed = 0;
        for _ in 0..2 {
            let st = Command::new(&exe).args(["replay", &path]).status();
            if let Ok(st) = st {
                if !matches!(st.code(), Some(0) | Some(2)) {
                    crashed += 1;
                }
            }
        }
        if crashed == 2 {
            // evidence for the aborted run
            let mut run = Run::new(props::find(id).map(|p| p.id).unwrap_or("C00"), tier);
            run.start = start;
            run.exhaustive = false;
            run.caps.push("exploration aborted by a fault inside an owlchess call".into());
            run.total.states = 1;
            run.total.transitions = 1;
            run.total.samples.push(case.clone());
            write_evidence(&run, 1, json!({"aborted": true}));
            println!("VIOLATION property={} replay={}", id, path);
            return 1;
        }
        let _ = std::fs::remove_file(&path);
    }
    eprintln!("MACHINERY ERROR: child died ({:?}) and no recorded case reproduces it", status);
    2
}

fn cmd_replay(path: &str) -> u8 {
    install_panic_hook();
    let s = match std::fs::read_to_string(path) {
        Ok(s) => s,
        Err(e) => {
            eprintln!("cannot read {}: {}", path, e);
            return 2;
        }
    };
    let v: Value = match serde_json::from_str(&s) {
        Ok(v) => v,
        Err(e) => {
            eprintln!("bad replay file: {}", e);
            return 2;
        }
    };
    let id = v.get("property").and_then(|p| p.as_str()).unwrap_or("");
    let prop = match props::find(id) {
        Some(p) => p,
        None => {
            eprintln!("unknown property in replay file");
            return 2;
        }
    };
    let case = v.get("case").cloned().unwrap_or(Value::Null);
    let r1 = replay_case(prop, &case);
    let r2 = replay_case(prop, &case);
    if r1 != r2 {
        eprintln!("MACHINERY ERROR: replay diverged");
        return 2;
    }
    if r1.is_empty() {
        println!("replay: property {} holds on this case", id);
        0
    } else {
        for m in &r1 {
            println!("replay: {}", m);
        }
        println!("VIOLATION property={} replay={}", id, path);
        1
    }
}

fn cmd_setup() -> u8 {
    match props::selfcheck::model_selfcheck() {
        Ok(n) => {
            println!("model self-validation: {} perft values reproduced", n);
            0
        }
        Err(e) => {
            eprintln!("MACHINERY ERROR: reference model failed self-validation: {}", e);
            2
        }
    }
}

fn main() -> ExitCode {
    let args: Vec<String> = std::env::args().collect();
    let code = match args.get(1).map(|s| s.as_str()) {
        Some("setup") => cmd_setup(),
        Some("run") | Some("check") if args.len() >= 4 => match tier_of(&args[3]) {
            Some(t) => {
                if args[1] == "run" {
                    cmd_run(&args[2], t)
                } else {
                    cmd_check(&args[2], t)
                }
            }
            None => 2,
        },
        Some("replay") if args.len() >= 3 => cmd_replay(&args[2]),
        Some("leg") if args.len() >= 4 => props::run_leg(&args[2], &args[3], &args[4..]),
        Some("mini") => props::c19::mini(),
        _ => {
            eprintln!("usage: owlmc setup | check <ID> quick|thorough | run <ID> <tier> | replay <path>");
            2
        }
    };
    ExitCode::from(code)
}

#[cfg(test)]
mod tests {
    #[test]
    fn p30_valid() {
        for p in crate::props::strs::p30() {
            let ok = crate::bind::board_of(&p).is_some();
            println!("{} {:?}", crate::model::text::fen(&p), ok);
            if !ok {
                println!("   reasons: {:?}, normal: {}", crate::model::RawPos::from_pos(&p).reasons(), crate::model::is_valid_normal(&p));
            }
        }
    }
}
