//! Binding between the reference model and owlchess values, through the public API only.

use crate::model::*;
use owlchess::board::ValidateError;
use owlchess::types::OutcomeFilter;
use owlchess::{
    Bitboard, Board, CastlingRights, CastlingSide, Cell, Color, Coord, DrawReason, File, Move,
    MoveKind, Outcome, Piece, Rank, RawBoard, WinReason,
};

/// model square (a1 = 0) -> owlchess coordinate (a8 = 0)
#[inline]
pub fn oc(s: usize) -> Coord {
    Coord::from_parts(File::from_index(s % 8), Rank::from_index(7 - s / 8))
}

/// owlchess coordinate -> model square
#[inline]
pub fn ms(c: Coord) -> usize {
    (7 - c.rank().index()) * 8 + c.file().index()
}

#[inline]
pub fn ocolor(c: u8) -> Color {
    if c == 0 {
        Color::White
    } else {
        Color::Black
    }
}

#[inline]
pub fn mcolor(c: Color) -> u8 {
    match c {
        Color::White => 0,
        Color::Black => 1,
    }
}

pub fn opiece(k: u8) -> Piece {
    match k {
        P => Piece::Pawn,
        N => Piece::Knight,
        B => Piece::Bishop,
        R => Piece::Rook,
        Q => Piece::Queen,
        _ => Piece::King,
    }
}

pub fn mpiece(p: Piece) -> u8 {
    match p {
        Piece::Pawn => P,
        Piece::Knight => N,
        Piece::Bishop => B,
        Piece::Rook => R,
        Piece::Queen => Q,
        Piece::King => K,
    }
}

#[inline]
pub fn ocell(c: u8) -> Cell {
    if c == EMPTY {
        return Cell::EMPTY;
    }
    Cell::from_parts(ocolor(colour(c)), opiece(kind(c)))
}

#[inline]
pub fn mcell(c: Cell) -> u8 {
    match (c.color(), c.piece()) {
        (Some(col), Some(p)) => mk(mcolor(col), mpiece(p)),
        _ => EMPTY,
    }
}

pub fn ocastling(cr: &[bool; 4]) -> CastlingRights {
    let mut r = CastlingRights::EMPTY;
    if cr[0] {
        r.set(Color::White, CastlingSide::King);
    }
    if cr[1] {
        r.set(Color::White, CastlingSide::Queen);
    }
    if cr[2] {
        r.set(Color::Black, CastlingSide::King);
    }
    if cr[3] {
        r.set(Color::Black, CastlingSide::Queen);
    }
    r
}

pub fn mcastling(r: CastlingRights) -> [bool; 4] {
    [
        r.has(Color::White, CastlingSide::King),
        r.has(Color::White, CastlingSide::Queen),
        r.has(Color::Black, CastlingSide::King),
        r.has(Color::Black, CastlingSide::Queen),
    ]
}

fn clamp16(x: u32) -> u16 {
    if x > 65535 {
        65535
    } else {
        x as u16
    }
}

pub fn raw_of_rawpos(p: &RawPos) -> RawBoard {
    let mut r = RawBoard::empty();
    for s in 0..64 {
        r.put(oc(s), ocell(p.b[s]));
    }
    r.side = ocolor(p.stm);
    r.castling = ocastling(&p.cr);
    r.ep_source = p.eps.map(|e| oc(e as usize));
    r.move_counter = clamp16(p.hmc);
    r.move_number = clamp16(p.fmn);
    r
}

pub fn to_raw(p: &Pos) -> RawBoard {
    raw_of_rawpos(&RawPos::from_pos(p))
}

pub fn rawpos_of_raw(r: &RawBoard) -> RawPos {
    let mut b = [EMPTY; 64];
    for s in 0..64 {
        b[s] = mcell(r.get(oc(s)));
    }
    RawPos {
        b,
        stm: mcolor(r.side),
        cr: mcastling(r.castling),
        eps: r.ep_source.map(|c| ms(c) as u8),
        hmc: r.move_counter as u32,
        fmn: r.move_number as u32,
    }
}

/// model view of a *valid* owlchess board (its en-passant mark is rank-consistent)
pub fn pos_of_board(b: &Board) -> Pos {
    let r = rawpos_of_raw(b.raw());
    Pos {
        b: r.b,
        stm: r.stm,
        cr: r.cr,
        ep: r.eps.map(|e| {
            let e = e as usize;
            (if r.stm == 0 { e + 8 } else { e - 8 }) as u8
        }),
        hmc: r.hmc,
        fmn: r.fmn,
    }
}

/// The implementation twin of a model position that the model considers valid and normal:
/// `None` when owlchess refuses it or normalises it differently (that disagreement is C11's
/// business and is only counted elsewhere).
pub fn board_of(p: &Pos) -> Option<Board> {
    let raw = to_raw(p);
    match Board::try_from(raw) {
        Ok(b) if *b.raw() == raw => Some(b),
        _ => None,
    }
}

pub fn mkind(m: Mv) -> MoveKind {
    match (m.flag, m.promo) {
        (1, _) => MoveKind::PawnDouble,
        (2, _) => MoveKind::Enpassant,
        (3, _) => MoveKind::CastlingKingside,
        (4, _) => MoveKind::CastlingQueenside,
        (_, N) => MoveKind::PromoteKnight,
        (_, B) => MoveKind::PromoteBishop,
        (_, R) => MoveKind::PromoteRook,
        (_, Q) => MoveKind::PromoteQueen,
        _ => MoveKind::Simple,
    }
}

/// A compact, totally ordered key of an owlchess move: (kind, cell, src, dst) with model squares
pub type MKey = (u8, u8, u8, u8);

pub fn key_of_move(m: &Move) -> MKey {
    (
        m.kind() as u8,
        mcell(m.src_cell()),
        ms(m.src()) as u8,
        ms(m.dst()) as u8,
    )
}

pub fn key_of_mv(p: &Pos, m: Mv) -> MKey {
    (mkind(m) as u8, p.b[m.from as usize], m.from, m.to)
}

/// model move -> owlchess move through the checked constructor
pub fn to_move(p: &Pos, m: Mv) -> Result<Move, String> {
    Move::new(
        mkind(m),
        ocell(p.b[m.from as usize]),
        oc(m.from as usize),
        oc(m.to as usize),
    )
    .map_err(|e| format!("Move::new refused model move {:?}: {}", m, e))
}

pub fn mv_of_move(m: &Move) -> Mv {
    let (flag, promo) = match m.kind() {
        MoveKind::PawnDouble => (1, 0),
        MoveKind::Enpassant => (2, 0),
        MoveKind::CastlingKingside => (3, 0),
        MoveKind::CastlingQueenside => (4, 0),
        MoveKind::PromoteKnight => (0, N),
        MoveKind::PromoteBishop => (0, B),
        MoveKind::PromoteRook => (0, R),
        MoveKind::PromoteQueen => (0, Q),
        _ => (0, 0),
    };
    Mv {
        from: ms(m.src()) as u8,
        to: ms(m.dst()) as u8,
        promo,
        flag,
    }
}

pub fn bb_to_model(b: Bitboard) -> u64 {
    let mut r = 0u64;
    for c in b {
        r |= 1 << ms(c);
    }
    r
}

pub fn model_to_bb(m: u64) -> Bitboard {
    let mut r = Bitboard::EMPTY;
    for s in 0..64 {
        if m >> s & 1 != 0 {
            r.set(oc(s));
        }
    }
    r
}

/// Every observable of a board: raw fields, hash, colour sets, the 13 per-cell sets and the
/// combined set (hook H1).
#[derive(Clone, PartialEq, Eq, Debug)]
pub struct Full {
    pub raw: RawBoard,
    pub hash: u64,
    pub white: u64,
    pub black: u64,
    pub all: u64,
    pub pieces: [u64; 13],
}

pub fn full(b: &Board) -> Full {
    let mut pieces = [0u64; 13];
    for (i, c) in Cell::iter().enumerate() {
        pieces[i] = b.piece(c).as_raw();
    }
    Full {
        raw: *b.raw(),
        hash: b.zobrist_hash(),
        white: b.color(Color::White).as_raw(),
        black: b.color(Color::Black).as_raw(),
        all: b.verif_all().as_raw(),
        pieces,
    }
}

pub fn full_diff(a: &Full, b: &Full) -> String {
    let mut d = Vec::new();
    if a.raw != b.raw {
        d.push(format!("raw {} vs {}", a.raw.as_fen(), b.raw.as_fen()));
    }
    if a.hash != b.hash {
        d.push(format!("hash {:#x} vs {:#x}", a.hash, b.hash));
    }
    if a.white != b.white {
        d.push(format!("white {:#x} vs {:#x}", a.white, b.white));
    }
    if a.black != b.black {
        d.push(format!("black {:#x} vs {:#x}", a.black, b.black));
    }
    if a.all != b.all {
        d.push(format!("all {:#x} vs {:#x}", a.all, b.all));
    }
    for i in 0..13 {
        if a.pieces[i] != b.pieces[i] {
            d.push(format!(
                "piece[{}] {:#x} vs {:#x}",
                i, a.pieces[i], b.pieces[i]
            ));
        }
    }
    d.join("; ")
}

/// Derived data recomputed from the squares; `Err` describes the first incoherence.
pub fn coherent(b: &Board) -> Result<(), String> {
    let raw = b.raw();
    let mut white = 0u64;
    let mut black = 0u64;
    let mut pieces = [0u64; 13];
    for i in 0..64 {
        let c = raw.cells[i];
        match c.color() {
            Some(Color::White) => white |= 1 << i,
            Some(Color::Black) => black |= 1 << i,
            None => {}
        }
        if c.is_occupied() {
            pieces[c.index()] |= 1 << i;
        }
    }
    let f = full(b);
    if f.hash != raw.zobrist_hash() {
        return Err(format!(
            "stored hash {:#x} != recomputed {:#x}",
            f.hash,
            raw.zobrist_hash()
        ));
    }
    if f.white != white {
        return Err(format!("white set {:#x} != rebuilt {:#x}", f.white, white));
    }
    if f.black != black {
        return Err(format!("black set {:#x} != rebuilt {:#x}", f.black, black));
    }
    if f.all != (white | black) {
        return Err(format!(
            "combined set {:#x} != rebuilt {:#x}",
            f.all,
            white | black
        ));
    }
    // the accessor aliases read the same derived data: get2, piece2, king_pos
    for i in 0..64 {
        let c = owlchess::Coord::from_index(i);
        if b.get2(c.file(), c.rank()) != raw.cells[i] || b.get(c) != raw.cells[i] || raw.get2(c.file(), c.rank()) != raw.cells[i] {
            return Err(format!("get / get2 on square {} differ from the stored cell", i));
        }
    }
    for i in 1..13 {
        let cell = owlchess::Cell::from_index(i);
        if let (Some(col), Some(p)) = (cell.color(), cell.piece()) {
            if b.piece2(col, p).as_raw() != pieces[i] {
                return Err(format!("piece2 set [{}] {:#x} != rebuilt {:#x}", i, b.piece2(col, p).as_raw(), pieces[i]));
            }
            if p == owlchess::Piece::King && pieces[i].count_ones() == 1 && b.king_pos(col).index() != pieces[i].trailing_zeros() as usize {
                return Err(format!("king_pos({:?}) = {} but the king stands on {}", col, b.king_pos(col).index(), pieces[i].trailing_zeros()));
            }
        }
    }
    for i in 0..13 {
        if f.pieces[i] != pieces[i] {
            return Err(format!(
                "piece set [{}] {:#x} != rebuilt {:#x}",
                i, f.pieces[i], pieces[i]
            ));
        }
    }
    Ok(())
}

pub fn reason_of(e: &ValidateError) -> Reason {
    match e {
        ValidateError::InvalidEnpassant(c) => Reason::InvalidEp(ms(*c) as u8),
        ValidateError::TooManyPieces(c) => Reason::TooManyPieces(mcolor(*c)),
        ValidateError::NoKing(c) => Reason::NoKing(mcolor(*c)),
        ValidateError::TooManyKings(c) => Reason::TooManyKings(mcolor(*c)),
        ValidateError::InvalidPawn(c) => Reason::InvalidPawn(ms(*c) as u8),
        ValidateError::OpponentKingAttacked => Reason::OppKingAttacked,
    }
}

/// owlchess outcome -> model outcome (None for reasons the model does not know, which no
/// calculation may return)
pub fn mout_of(o: &Outcome) -> Option<MOut> {
    Some(match o {
        Outcome::Win {
            side,
            reason: WinReason::Checkmate,
        } => MOut::Mate(mcolor(*side)),
        Outcome::Draw(DrawReason::Stalemate) => MOut::Stalemate,
        Outcome::Draw(DrawReason::InsufficientMaterial) => MOut::Insufficient,
        Outcome::Draw(DrawReason::Moves75) => MOut::Moves75,
        Outcome::Draw(DrawReason::Repeat5) => MOut::Repeat5,
        Outcome::Draw(DrawReason::Moves50) => MOut::Moves50,
        Outcome::Draw(DrawReason::Repeat3) => MOut::Repeat3,
        _ => return None,
    })
}

pub fn outcome_of(o: MOut) -> Outcome {
    match o {
        MOut::Mate(c) => Outcome::Win {
            side: ocolor(c),
            reason: WinReason::Checkmate,
        },
        MOut::Stalemate => Outcome::Draw(DrawReason::Stalemate),
        MOut::Insufficient => Outcome::Draw(DrawReason::InsufficientMaterial),
        MOut::Moves75 => Outcome::Draw(DrawReason::Moves75),
        MOut::Repeat5 => Outcome::Draw(DrawReason::Repeat5),
        MOut::Moves50 => Outcome::Draw(DrawReason::Moves50),
        MOut::Repeat3 => Outcome::Draw(DrawReason::Repeat3),
    }
}

pub fn ofilter(f: u8) -> OutcomeFilter {
    match f {
        0 => OutcomeFilter::Force,
        1 => OutcomeFilter::Strict,
        _ => OutcomeFilter::Relaxed,
    }
}
