//! C06 - semilegal generation, semilegal validation and well-formedness agree

use crate::bind::*;
use crate::engine::*;
use crate::model::*;
use crate::props::common::*;
use arrayvec::ArrayVec;
use owlchess::movegen::{semilegal, MoveList};
use owlchess::{Board, Cell, Coord, Move, MoveKind};
use serde_json::{json, Value};
use std::sync::OnceLock;

pub const NAMES: &[&str] = &[
    "well_formed_tuples",
    "tuples_tried",
    "w_scans",
    "semilegal_moves",
    "illegal_semilegal_moves",
    "max_semilegal_moves",
    "castling_semilegal",
    "ep_semilegal",
    "model_impl_validity_disagreements",
];
const WF: usize = 0;
const TUPLES: usize = 1;
const WSCANS: usize = 2;
const SEMI: usize = 3;
const ILLEGAL: usize = 4;
const MAXSEMI: usize = 5;
const CASTLE: usize = 6;
const EPS: usize = 7;
const DISAGREE: usize = 8;
const MAX_IDX: &[usize] = &[MAXSEMI];

pub const KINDS: [MoveKind; 10] = [
    MoveKind::Null,
    MoveKind::Simple,
    MoveKind::CastlingKingside,
    MoveKind::CastlingQueenside,
    MoveKind::PawnDouble,
    MoveKind::Enpassant,
    MoveKind::PromoteKnight,
    MoveKind::PromoteBishop,
    MoveKind::PromoteRook,
    MoveKind::PromoteQueen,
];

/// The model's geometric predicate: is (kind, cell, src, dst) possible on some board?
/// Squares are model squares; `cell` is a model cell (EMPTY allowed).
pub fn model_well_formed(kind: MoveKind, cell: u8, src: usize, dst: usize) -> bool {
    if kind == MoveKind::Null {
        // the documented canonical null tuple: empty cell, both squares = square with index 0
        // (owlchess index 0 is a8)
        return cell == EMPTY && src == 56 && dst == 56;
    }
    if cell == EMPTY || src == dst {
        return false;
    }
    let col = colour(cell);
    let k = kind_of(cell);
    let (sf, sr, df, dr) = (file_of(src), rank_of(src), file_of(dst), rank_of(dst));
    let (adf, adr) = ((sf - df).abs(), (sr - dr).abs());
    let dir = if col == 0 { 1 } else { -1 };
    let home = if col == 0 { 0 } else { 7 };
    match kind {
        MoveKind::Simple => match k {
            P => {
                adf <= 1
                    && sr != 0
                    && sr != 7
                    && dr != 0
                    && dr != 7
                    && dr == sr + dir
            }
            K => adf <= 1 && adr <= 1,
            N => (adf == 1 && adr == 2) || (adf == 2 && adr == 1),
            B => adf == adr,
            R => adf == 0 || adr == 0,
            Q => adf == adr || adf == 0 || adr == 0,
            _ => false,
        },
        MoveKind::CastlingKingside => k == K && src == sq(4, home) && dst == sq(6, home),
        MoveKind::CastlingQueenside => k == K && src == sq(4, home) && dst == sq(2, home),
        MoveKind::PawnDouble => {
            k == P && adf == 0 && sr == (if col == 0 { 1 } else { 6 }) && dr == sr + 2 * dir
        }
        MoveKind::Enpassant => {
            k == P && adf == 1 && sr == (if col == 0 { 4 } else { 3 }) && dr == sr + dir
        }
        MoveKind::PromoteKnight
        | MoveKind::PromoteBishop
        | MoveKind::PromoteRook
        | MoveKind::PromoteQueen => {
            k == P && adf <= 1 && sr == (if col == 0 { 6 } else { 1 }) && dr == sr + dir
        }
        MoveKind::Null => unreachable!(),
    }
}

fn kind_of(c: u8) -> u8 {
    kind(c)
}

/// W = all well-formed non-null moves, through the checked constructor
pub fn all_well_formed() -> &'static Vec<Move> {
    static W: OnceLock<Vec<Move>> = OnceLock::new();
    W.get_or_init(|| {
        let mut v = Vec::new();
        for kind in KINDS {
            if kind == MoveKind::Null {
                continue;
            }
            for cell in Cell::iter() {
                for s in 0..64 {
                    for d in 0..64 {
                        if let Ok(m) =
                            Move::new(kind, cell, Coord::from_index(s), Coord::from_index(d))
                        {
                            v.push(m);
                        }
                    }
                }
            }
        }
        v
    })
}

/// Move::from_castling = the checked constructor on the king's castling squares
fn check_castling_ctor(ctx: &mut Ctx) {
    for (color, home) in [(owlchess::Color::White, 7usize), (owlchess::Color::Black, 0usize)] {
        for (side, kind, file) in [(owlchess::CastlingSide::King, MoveKind::CastlingKingside, 6usize), (owlchess::CastlingSide::Queen, MoveKind::CastlingQueenside, 2usize)] {
            ctx.states += 1;
            let got = Move::from_castling(color, side);
            let want = Move::new(kind, Cell::from_parts(color, owlchess::Piece::King), Coord::from_index(home * 8 + 4), Coord::from_index(home * 8 + file));
            if want.as_ref().ok() != Some(&got) || !got.is_well_formed() {
                ctx.violate(json!({"kind": "castling_ctor", "color": format!("{:?}", color), "side": format!("{:?}", side)}), format!("Move::from_castling gives {:?}, the checked constructor {:?}", got, want));
            }
        }
    }
}

fn check_tuples(ctx: &mut Ctx) {
    check_castling_ctor(ctx);
    for kind in KINDS {
        for cell in Cell::iter() {
            let mc = mcell(cell);
            for s in 0..64usize {
                for d in 0..64usize {
                    ctx.states += 1;
                    ctx.add(TUPLES, 1);
                    let (os, od) = (Coord::from_index(s), Coord::from_index(d));
                    let want = model_well_formed(kind, mc, ms(os), ms(od));
                    let got = Move::new(kind, cell, os, od);
                    let wf = unsafe { Move::new_unchecked(kind, cell, os, od) }.is_well_formed();
                    if got.is_ok() != want || wf != want {
                        ctx.violate(
                            json!({"kind": "tuple", "move_kind": kind as u8, "cell": cell.index(), "src": s, "dst": d}),
                            format!(
                                "Move::new({:?}, {:?}, {}, {}) accepted={} is_well_formed={} but geometry says {}",
                                kind, cell, os, od, got.is_ok(), wf, want
                            ),
                        );
                    }
                    if let Ok(m) = got {
                        ctx.add(WF, 1);
                        if m.kind() != kind || m.src_cell() != cell || m.src() != os || m.dst() != od {
                            ctx.violate(
                                json!({"kind": "tuple", "move_kind": kind as u8, "cell": cell.index(), "src": s, "dst": d}),
                                "Move::new does not store the tuple it was given".into(),
                            );
                        }
                    }
                }
            }
        }
    }
    // the null move
    if !Move::NULL.is_well_formed() || Move::NULL.kind() != MoveKind::Null {
        ctx.violate(json!({"kind": "tuple", "null": true}), "Move::NULL is not well-formed".into());
    }
}

fn replay_tuple(case: &Value, ctx: &mut Ctx) {
    let kind = KINDS
        .iter()
        .find(|k| **k as u64 == case["move_kind"].as_u64().unwrap_or(99))
        .cloned();
    let (Some(kind), Some(ci), Some(s), Some(d)) = (
        kind,
        case["cell"].as_u64(),
        case["src"].as_u64(),
        case["dst"].as_u64(),
    ) else {
        if case["null"].as_bool() == Some(true) && !Move::NULL.is_well_formed() {
            ctx.violate(case.clone(), "Move::NULL is not well-formed".into());
        }
        return;
    };
    let cell = Cell::from_index(ci as usize);
    let (os, od) = (Coord::from_index(s as usize), Coord::from_index(d as usize));
    let want = model_well_formed(kind, mcell(cell), ms(os), ms(od));
    let got = Move::new(kind, cell, os, od).is_ok();
    if got != want {
        ctx.violate(case.clone(), format!("Move::new accepted={} but geometry says {}", got, want));
    }
}

fn sorted_keys(v: &[Move]) -> Vec<MKey> {
    let mut k: Vec<MKey> = v.iter().map(key_of_move).collect();
    k.sort();
    k
}

pub fn check_pos_opt(ctx: &mut Ctx, p: &Pos, b: &Board, full_w: bool) {
    ctx.states += 1;
    let pseudo = p.pseudo_vec();
    let mut want: Vec<MKey> = pseudo.iter().map(|&m| key_of_mv(p, m)).collect();
    want.sort();
    ctx.add(SEMI, pseudo.len() as u64);
    ctx.max(MAXSEMI, pseudo.len() as u64);
    for &m in &pseudo {
        if !p.is_legal(m) {
            ctx.add(ILLEGAL, 1);
        }
        if m.flag >= 3 {
            ctx.add(CASTLE, 1);
        }
        if m.flag == 2 {
            ctx.add(EPS, 1);
        }
    }

    // generator
    let gen = semilegal::gen_all(b);
    let got_gen = sorted_keys(&gen);
    if got_gen != want {
        ctx.violate(
            case_pos(p, "semilegal::gen_all"),
            format!(
                "semilegal::gen_all differs from the pseudo-legal moves: extra {:?}, missing {:?}",
                diff_keys(&got_gen, &want),
                diff_keys(&want, &got_gen)
            ),
        );
    }
    for m in gen.iter() {
        ctx.transitions += 1;
        ctx.traces += 1;
        if !m.is_well_formed() {
            ctx.violate(case_pos(p, "generated move well-formed"), format!("generated move {:?} is not well-formed", m));
        }
        if m.src_cell() != b.get(m.src()) {
            ctx.violate(
                case_pos(p, "generated move src_cell"),
                format!("generated move {} names {:?} but {:?} stands on its source", m, m.src_cell(), b.get(m.src())),
            );
        }
    }

    // validation over W
    let w = all_well_formed();
    let mut got_val: Vec<MKey> = Vec::new();
    let occupied_only = !full_w;
    for m in w.iter() {
        if occupied_only && b.get(m.src()).is_free() && m.src().index() % 9 != 0 {
            // reduced scan: moves from occupied sources plus a fixed probe set of empty sources
            // (the a8-h1 diagonal)
            continue;
        }
        let s = m.is_semilegal(b);
        if s != m.semi_validate(b).is_ok() {
            ctx.violate(case_pos(p, "semi_validate vs is_semilegal"), format!("semi_validate and is_semilegal disagree on {:?}", m));
        }
        if s {
            got_val.push(key_of_move(m));
        }
    }
    ctx.add(WSCANS, 1);
    got_val.sort();
    if got_val != want {
        ctx.violate(
            case_pos(p, "is_semilegal over W"),
            format!(
                "{{m in W : is_semilegal}} differs from the pseudo-legal moves: extra {:?}, missing {:?}",
                diff_keys(&got_val, &want),
                diff_keys(&want, &got_val)
            ),
        );
    }
    if Move::NULL.is_semilegal(b) {
        ctx.violate(case_pos(p, "null semilegal"), "the null move is reported semilegal".into());
    }

    // partitions (as multisets)
    let cap = semilegal::gen_capture(b);
    let simple = semilegal::gen_simple(b);
    let snp = semilegal::gen_simple_no_promote(b);
    let sp = semilegal::gen_simple_promote(b);
    let mut u: Vec<MKey> = cap.iter().chain(simple.iter()).map(key_of_move).collect();
    u.sort();
    if u != got_gen {
        ctx.violate(case_pos(p, "gen_all = capture + simple"), "gen_all is not the disjoint union of gen_capture and gen_simple".into());
    }
    let mut u2: Vec<MKey> = snp.iter().chain(sp.iter()).map(key_of_move).collect();
    u2.sort();
    if u2 != sorted_keys(&simple) {
        ctx.violate(case_pos(p, "gen_simple = no_promote + promote"), "gen_simple is not the disjoint union of its promotion and non-promotion parts".into());
    }
    // classification of the parts by the rules
    let sub = |pred: &dyn Fn(Mv) -> bool| -> Vec<MKey> {
        let mut v: Vec<MKey> = pseudo.iter().filter(|&&m| pred(m)).map(|&m| key_of_mv(p, m)).collect();
        v.sort();
        v
    };
    if sorted_keys(&cap) != sub(&|m| p.is_capture(m)) {
        ctx.violate(case_pos(p, "semilegal::gen_capture"), "gen_capture is not exactly the pseudo-legal captures".into());
    }
    if sorted_keys(&snp) != sub(&|m| !p.is_capture(m) && m.promo == 0) {
        ctx.violate(case_pos(p, "semilegal::gen_simple_no_promote"), "gen_simple_no_promote is not exactly the non-capturing non-promotions".into());
    }
    if sorted_keys(&sp) != sub(&|m| !p.is_capture(m) && m.promo != 0) {
        ctx.violate(case_pos(p, "semilegal::gen_simple_promote"), "gen_simple_promote is not exactly the non-capturing promotions".into());
    }

    // the _into variants produce the same sequences
    macro_rules! into_check {
        ($name:literal, $plain:expr, $into:path) => {{
            let mut v: Vec<Move> = Vec::new();
            $into(b, &mut v);
            let mut a: ArrayVec<Move, 256> = ArrayVec::new();
            $into(b, &mut a);
            let mut l = MoveList::new();
            $into(b, &mut l);
            let plain: &[Move] = &$plain;
            if v.as_slice() != plain || a.as_slice() != plain || l.as_slice() != plain {
                ctx.violate(case_pos(p, $name), format!("{} differs between sinks", $name));
            }
        }};
    }
    into_check!("gen_all_into", gen, semilegal::gen_all_into);
    into_check!("gen_capture_into", cap, semilegal::gen_capture_into);
    into_check!("gen_simple_into", simple, semilegal::gen_simple_into);
    into_check!("gen_simple_no_promote_into", snp, semilegal::gen_simple_no_promote_into);
    into_check!("gen_simple_promote_into", sp, semilegal::gen_simple_promote_into);

    if ctx.samples.is_empty() {
        ctx.samples.push(json!({
            "fen": crate::model::text::fen(p),
            "pseudo_legal": pseudo.iter().map(|&m| crate::model::text::uci(m)).collect::<Vec<_>>(),
            "well_formed_moves_scanned": w.len(),
        }));
    }
}

pub fn check_pos(ctx: &mut Ctx, p: &Pos, b: &Board) {
    check_pos_opt(ctx, p, b, true)
}

pub fn check_pos_reduced(ctx: &mut Ctx, p: &Pos, b: &Board) {
    check_pos_opt(ctx, p, b, false)
}

pub fn run(run: &mut Run) {
    run.counter_names = NAMES;
    run.max_idx = MAX_IDX;
    run.assumptions = vec![
        "reference model refchess: pseudo-legal move set and geometric well-formedness predicate".into(),
        "binding layer bind.rs".into(),
    ];
    run.seq("TUPLES (10 kinds x 13 cells x 64 x 64)", |ctx| check_tuples(ctx));
    run.notes.push(format!("|W| = {} well-formed non-null moves", all_well_formed().len()));
    let thorough = run.thorough();
    let mut sel = Sel::standard(thorough);
    sel.m4 = None;
    if !thorough {
        // quick: the cornered-king and back-rank families judge legality and attack queries, not
        // the pseudo-legal set; they stay in the thorough tier here
        sel.boxk = None;
        sel.backrank = false;
        // quick: the complete W-scan on CASTLE, PROMO and REACH; the reduced W-scan (members of
        // W whose source is occupied + the empty-source probe set) on all other families
        let full = Sel { castle: sel.castle, promo: sel.promo, reach: sel.reach, ..Default::default() };
        run_universes(run, &full, DISAGREE, &check_pos);
        let mut sel2 = sel.clone();
        sel2.castle = None;
        sel2.promo = None;
        sel2.reach = None;
        sel2.m3 = true;
        // legality-oriented families add nothing for pseudo-legal generation: thorough only
        sel2.promo2 = false;
        sel2.battery = None;
        sel2.pin2 = Some(2);
        sel2.ep_spread_only = true;
        run.notes.push("quick: all families except CASTLE, PROMO and REACH use the reduced W-scan (members of W whose source is occupied + sources on the a8-h1 diagonal)".into());
        run_universes(run, &sel2, DISAGREE, &check_pos_reduced);
    } else {
        run_universes(run, &sel, DISAGREE, &check_pos);
    }
    if thorough {
        // M4 with the reduced W-scan (occupied sources + probe set)
        let sel4 = Sel { m4: Some(crate::universe::M4_SHARDS), ..Default::default() };
        run.notes.push("M4 uses the reduced W-scan: members of W whose source square is occupied plus the empty-source probe set (sources on the a8-h1 diagonal)".into());
        run_universes(run, &sel4, DISAGREE, &check_pos_reduced);
    }
}

pub fn replay(case: &Value, ctx: &mut Ctx) {
    match case["kind"].as_str() {
        Some("tuple") => replay_tuple(case, ctx),
        Some("castling_ctor") => check_castling_ctor(ctx),
        _ => replay_pos(case, ctx, &check_pos),
    }
}
