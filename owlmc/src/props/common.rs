//! Shared drivers for position-based properties.

use crate::bind::*;
use crate::engine::*;
use crate::model::*;
use crate::universe as uni;
use owlchess::Board;
use rayon::prelude::*;
use serde_json::Value;
use std::collections::HashSet;

pub type PosCheck<'a> = &'a (dyn Fn(&mut Ctx, &Pos, &Board) + Sync);

pub fn diff_keys(a: &[MKey], b: &[MKey]) -> Vec<MKey> {
    // multiset difference a - b (both sorted)
    let mut res = Vec::new();
    let mut j = 0;
    for x in a {
        while j < b.len() && b[j] < *x {
            j += 1;
        }
        if j < b.len() && b[j] == *x {
            j += 1;
        } else {
            res.push(*x);
        }
    }
    res
}

/// visit one model-valid position: build its implementation twin and run the check under guard
#[inline]
pub fn visit(ctx: &mut Ctx, p: &Pos, disagree_idx: usize, check: PosCheck) {
    set_slot_pos(p);
    match guarded(|| board_of(p)) {
        Ok(Some(b)) => {
            if let Err(msg) = guarded(|| check(ctx, p, &b)) {
                ctx.violate(case_pos(p, "panic"), format!("panic: {}", msg));
            }
        }
        _ => ctx.add(disagree_idx, 1),
    }
}

#[derive(Clone, Default)]
pub struct Sel {
    pub m3: bool,
    pub ray: Option<usize>,
    pub ep: Option<bool>,
    /// restrict EP to the shards whose own king stands on one of the 8 spread squares
    pub ep_spread_only: bool,
    pub castle: Option<bool>,
    pub promo: Option<bool>,
    pub reach: Option<u32>,
    /// number of M4 shards (of 4096) to explore, in order
    pub m4: Option<usize>,
    /// the corner slice of M4: all 4-man positions with the white king on h8 (its promotion
    /// rank) or the black king on h1, the other king at most the given distance away (7 = anywhere:
    /// 127 of the 4096 king-pair shards)
    pub m4_corner: Option<i32>,
    pub sanamb: Option<(usize, bool)>,
    /// number of king placements (of 6) used by SANAMB; 0 = all
    pub sanamb_kings: usize,
    /// two simultaneous pin lines, men at distance <= n from the king
    pub pin2: Option<usize>,
    /// slider-table universe at position level
    pub occ: bool,
    /// many same pieces reaching one square
    pub sanmany: bool,
    /// two pawns capturing onto one promotion square
    pub promo2: bool,
    /// two enemy sliders behind each other on a king line + one own man: (max distance, wide)
    pub battery: Option<(usize, bool)>,
    /// doubled pawns with two captures onto one file
    pub pawncap2: bool,
    /// three same pieces, one pinned
    pub sanpin: bool,
    /// all 65,536 values of each counter on a few positions
    pub clocks: bool,
    /// valid positions among the dense boards (long FEN fields, up to 32 men)
    pub dense: bool,
    /// a piece without moves boxed in by own men + a second piece of its kind
    pub boxed: bool,
    pub counters: bool,
    pub material: Option<Vec<u32>>,
    /// deep DFS without dedup from the first `n` seeds to the given depth
    pub dfs: Option<(usize, u32)>,
}

impl Sel {
    pub fn standard(thorough: bool) -> Sel {
        if thorough {
            Sel {
                m3: true,
                ray: Some(3),
                ep: Some(true),
                castle: Some(true),
                promo: Some(true),
                reach: Some(4),
                m4: Some(uni::M4_SHARDS),
                pin2: Some(4),
                promo2: true,
                pawncap2: true,
                occ: true,
                battery: Some((7, true)),
                boxed: true,
                ..Default::default()
            }
        } else {
            Sel {
                m3: true,
                ray: Some(2),
                ep: Some(false),
                castle: Some(false),
                promo: Some(false),
                reach: Some(3),
                pin2: Some(3),
                occ: true,
                promo2: true,
                battery: Some((3, false)),
                boxed: true,
                ..Default::default()
            }
        }
    }
}

pub fn reach_states(depth: u32, max_states: usize) -> (Vec<(Pos, u32)>, bool) {
    reach_states_from(&uni::seeds(), depth, max_states)
}

pub fn reach_states_from(seeds: &[Pos], depth: u32, max_states: usize) -> (Vec<(Pos, u32)>, bool) {
    let parts: Vec<(Vec<(Pos, u32)>, bool)> = seeds
        .par_iter()
        .map(|s| uni::reach(&[*s], depth, max_states))
        .collect();
    let mut seen: HashSet<Pos> = HashSet::new();
    let mut all = Vec::new();
    let mut capped = false;
    for (v, c) in parts {
        capped |= c;
        for (p, d) in v {
            if seen.insert(p) {
                all.push((p, d));
            }
        }
    }
    (all, capped)
}

pub fn run_universes(run: &mut Run, sel: &Sel, disagree_idx: usize, check: PosCheck) {
    if sel.m3 {
        run.par_shards("M3 (<=3 men, all)", uni::M3_SHARDS, |ctx, sh| {
            uni::m3(sh, &mut |p| visit(ctx, p, disagree_idx, check));
        });
    }
    if let Some(n) = sel.ray {
        run.par_shards(
            &format!("RAY (<={} men on a king ray)", n),
            uni::RAY_SHARDS,
            |ctx, sh| {
                uni::ray(sh, n, &mut |p| visit(ctx, p, disagree_idx, check));
            },
        );
    }
    if let Some(full) = sel.ep {
        run.par_shards(
            if full { "EP (full)" } else if sel.ep_spread_only { "EP (quick, own king on 8 spread squares)" } else { "EP (quick)" },
            uni::EP_SHARDS,
            |ctx, sh| {
                if sel.ep_spread_only && !uni::SPREAD8.contains(&(sh / 2)) {
                    return;
                }
                uni::ep(sh, full, &mut |p| visit(ctx, p, disagree_idx, check));
            },
        );
    }
    if let Some(full) = sel.castle {
        run.par_shards(
            if full { "CASTLE (full)" } else { "CASTLE (quick)" },
            uni::CASTLE_SHARDS,
            |ctx, sh| {
                uni::castle(sh, full, &mut |p| visit(ctx, p, disagree_idx, check));
            },
        );
    }
    if let Some(full) = sel.promo {
        run.par_shards(
            if full { "PROMO (full)" } else { "PROMO (quick)" },
            uni::PROMO_SHARDS,
            |ctx, sh| {
                uni::promo(sh, full, &mut |p| visit(ctx, p, disagree_idx, check));
            },
        );
    }
    if let Some(n) = sel.pin2 {
        run.par_shards(&format!("PIN2 (two pin / x-ray lines through the king, distances <= {})", n), uni::PIN2_SHARDS, |ctx, sh| {
            uni::pin2(sh, n, &mut |p| visit(ctx, p, disagree_idx, check));
        });
    }
    if sel.occ {
        run.par_shards("OCC (every blocker subset on the rook / bishop lines of every square, as positions)", uni::OCC_SHARDS, |ctx, sh| {
            uni::occ(sh, &mut |p| visit(ctx, p, disagree_idx, check));
        });
    }
    if let Some((n, wide)) = sel.battery {
        run.par_shards(&format!("BATTERY (two enemy sliders in line with the king, distances <= {}, + one own man{})", n, if wide { ", all slider kinds" } else { "" }), uni::BATTERY_SHARDS, |ctx, sh| {
            uni::battery(sh, n, wide, &mut |p| visit(ctx, p, disagree_idx, check));
        });
    }
    if sel.promo2 {
        run.par_shards("PROMO2 (two pawns capturing onto one promotion square, +- enemy slider)", uni::PROMO2_SHARDS, |ctx, sh| {
            uni::promo2(sh, &mut |p| visit(ctx, p, disagree_idx, check));
        });
    }
    if sel.pawncap2 {
        run.par_shards("PAWNCAP2 (doubled pawns, two captures onto one file, +- enemy slider)", uni::PAWNCAP2_SHARDS, |ctx, sh| {
            uni::pawncap2(sh, &mut |p| visit(ctx, p, disagree_idx, check));
        });
    }
    if sel.sanpin {
        run.par_shards("SANPIN (three own pieces of one kind, one pinned)", uni::SANPIN_SHARDS, |ctx, sh| {
            uni::sanpin(sh, &mut |p| visit(ctx, p, disagree_idx, check));
        });
    }
    if sel.boxed {
        run.par_shards("BOXED (a piece boxed in by own men + a second piece of its kind anywhere)", uni::BOXED_SHARDS, |ctx, sh| {
            uni::boxed(sh, &mut |p| visit(ctx, p, disagree_idx, check));
        });
    }
    if sel.dense {
        run.par_shards("DENSE (valid positions among 6^8 x 2 boards with dense rank patterns)", uni::DENSE_SHARDS, |ctx, sh| {
            let cell = std::cell::RefCell::new(ctx);
            uni::dense(sh, &mut |_| {}, &mut |p| visit(*cell.borrow_mut(), p, disagree_idx, check));
        });
    }
    if sel.clocks {
        run.par_shards("CLOCKS (6 positions x all 65,536 values of each counter)", uni::CLOCKS_SHARDS, |ctx, sh| {
            uni::clocks(sh, &mut |p| visit(ctx, p, disagree_idx, check));
        });
    }
    if sel.sanmany {
        run.par_shards("SANMANY (2..8 own pieces of one kind all reaching one square, every subset)", uni::SANMANY_SHARDS, |ctx, sh| {
            uni::sanmany(sh, &mut |p| visit(ctx, p, disagree_idx, check));
        });
    }
    if let Some((n, pin)) = sel.sanamb {
        run.par_shards(
            &format!("SANAMB ({} same pieces{})", n, if pin { " + pinner" } else { "" }),
            uni::SANAMB_SHARDS,
            |ctx, sh| {
                uni::sanamb_k(sh, n, pin, if sel.sanamb_kings == 0 { 6 } else { sel.sanamb_kings }, &mut |p| visit(ctx, p, disagree_idx, check));
            },
        );
    }
    if let Some(clocks) = &sel.material {
        run.par_shards("MATERIAL (B/N on 8 squares)", uni::MATERIAL_SHARDS, |ctx, sh| {
            uni::material(sh, clocks, &mut |p| visit(ctx, p, disagree_idx, check));
        });
    }
    if sel.counters {
        let cs = uni::counters();
        let chunks: Vec<&[Pos]> = cs.chunks(64).collect();
        run.par_shards("COUNTERS (clocks and move numbers at limits)", chunks.len(), |ctx, sh| {
            for p in chunks[sh] {
                if is_valid_normal(p) {
                    visit(ctx, p, disagree_idx, check);
                }
            }
        });
    }
    if let Some(d) = sel.reach {
        let cap = if run.thorough() { 30_000_000 } else { 3_000_000 };
        let (states, capped) = reach_states(d, cap);
        if capped {
            run.exhaustive = false;
            run.caps.push(format!(
                "REACH({}): state cap {} reached; explored the BFS prefix only",
                d, cap
            ));
        }
        let maxd = states.iter().map(|s| s.1).max().unwrap_or(0);
        let chunks: Vec<&[(Pos, u32)]> = states.chunks(2048).collect();
        run.par_shards(
            &format!("REACH({}) from {} seeds, {} states, max depth {}", d, uni::seeds().len(), states.len(), maxd),
            chunks.len(),
            |ctx, sh| {
                for (p, _) in chunks[sh] {
                    visit(ctx, p, disagree_idx, check);
                }
            },
        );
    }
    if let Some((nseeds, depth)) = sel.dfs {
        let seeds = uni::seeds();
        // shard by (seed, first move) for parallelism
        let mut roots: Vec<Pos> = Vec::new();
        for s in seeds.iter().take(nseeds) {
            for m in s.legal() {
                for m2 in s.apply(m).legal() {
                    roots.push(s.apply(m).apply(m2));
                }
            }
        }
        run.par_shards(
            &format!("DFS depth {} from {} seeds (no dedup)", depth, nseeds),
            roots.len(),
            |ctx, sh| {
                fn rec(ctx: &mut Ctx, p: &Pos, left: u32, di: usize, check: PosCheck) {
                    visit(ctx, p, di, check);
                    if left == 0 {
                        return;
                    }
                    for m in p.legal() {
                        rec(ctx, &p.apply(m), left - 1, di, check);
                    }
                }
                rec(ctx, &roots[sh], depth.saturating_sub(2), disagree_idx, check);
            },
        );
    }
    if let Some(maxd) = sel.m4_corner {
        let dist = |a: usize, b: usize| (file_of(a) - file_of(b)).abs().max((rank_of(a) - rank_of(b)).abs());
        // a negative bound means: the white-king-on-h8 half only
        let wk_only = maxd < 0;
        let maxd = maxd.abs();
        let shards: Vec<usize> = (0..uni::M4_SHARDS).filter(|sh| (sh / 64 == 63 || (!wk_only && sh % 64 == 7)) && dist(sh / 64, sh % 64) <= maxd).collect();
        run.par_shards(
            &format!("M4-corner (4 men, {} king-pair shards: wK on h8 or bK on h1, kings at most {} apart)", shards.len(), maxd),
            shards.len() * 64,
            |ctx, i| {
                uni::m4_x(shards[i / 64], Some(i % 64), &mut |p| visit(ctx, p, disagree_idx, check));
            },
        );
    }
    if let Some(n) = sel.m4 {
        let n = n.min(uni::M4_SHARDS);
        if n < uni::M4_SHARDS {
            run.caps.push(format!(
                "M4: only the first {} of {} (white king, black king) shards requested",
                n,
                uni::M4_SHARDS
            ));
        }
        run.par_shards(
            &format!("M4 (4 men, {} of 4096 king-pair shards)", n),
            n,
            |ctx, sh| {
                uni::m4(sh, &mut |p| visit(ctx, p, disagree_idx, check));
            },
        );
    }
}

pub fn standard_position_universes(run: &mut Run, thorough: bool, disagree_idx: usize, check: PosCheck) {
    let sel = Sel::standard(thorough);
    run_universes(run, &sel, disagree_idx, check);
}

/// replay of a "pos" case (also used for crash cases)
pub fn replay_pos(case: &Value, ctx: &mut Ctx, check: PosCheck) {
    let p = match pos_of_case(case) {
        Some(p) => p,
        None => {
            ctx.violate(case.clone(), "replay: cannot read the position of this case".into());
            return;
        }
    };
    match board_of(&p) {
        Some(b) => check(ctx, &p, &b),
        None => ctx.violate(
            case.clone(),
            "replay: owlchess does not accept this model-valid position unchanged".into(),
        ),
    }
}
