//! Shared drivers for position-based properties.

use crate::bind::*;
use crate::engine::*;
use crate::model::*;
use crate::universe as uni;
use owlchess::Board;
use rayon::prelude::*;
use serde_json::Value;
use std::collections::HashSet;

pub type PosCheck<'a> = &'a (dyn Fn(&mut Ctx, &Pos, &Board) + Sync);

pub fn diff_keys(a: &[MKey], b: &[MKey]) -> Vec<MKey> {
    // multiset difference a - b (both sorted)
    let mut res = Vec::new();
    let mut j = 0;
    for x in a {
        while j < b.len() && b[j] < *x {
            j += 1;
        }
        if j < b.len() && b[j] == *x {
            j += 1;
        } else {
            res.push(*x);
        }
    }
    res
}

/// visit one model-valid position: build its implementation twin and run the check under guard
#[inline]
pub fn visit(ctx: &mut Ctx, p: &Pos, disagree_idx: usize, check: PosCheck) {
    set_slot_pos(p);
    match guarded(|| board_of(p)) {
        Ok(Some(b)) => {
            if let Err(msg) = guarded(|| check(ctx, p, &b)) {
                ctx.violate(case_pos(p, "panic"), format!("panic: {}", msg));
            }
        }
        _ => ctx.add(disagree_idx, 1),
    }
}

#[derive(Clone, Default)]
pub struct Sel {
    pub m3: bool,
    pub ray: Option<usize>,
    pub ep: Option<bool>,
    /// restrict EP to the shards whose own king stands on one of the 8 spread squares
    pub ep_spread_only: bool,
    pub castle: Option<bool>,
    pub promo: Option<bool>,
    pub reach: Option<u32>,
    /// number of M4 shards (of 4096) to explore, in order
    pub m4: Option<usize>,
    /// the corner slice of M4: all 4-man positions with the white king on h8 (its promotion
    /// rank) or the black king on h1, the other king at most the given distance away (7 = anywhere:
    /// 127 of the 4096 king-pair shards)
    pub m4_corner: Option<i32>,
    pub sanamb: Option<(usize, bool)>,
    /// number of king placements (of 6) used by SANAMB; 0 = all
    pub sanamb_kings: usize,
    /// two simultaneous pin lines, men at distance <= n from the king
    pub pin2: Option<usize>,
    /// slider-table universe at position level
    pub occ: bool,
    /// many same pieces reaching one square
    pub sanmany: bool,
    /// two pawns capturing onto one promotion square
    pub promo2: bool,
    /// two enemy sliders behind each other on a king line + one own man: (max distance, wide)
    pub battery: Option<(usize, bool)>,
    /// doubled pawns with two captures onto one file
    pub pawncap2: bool,
    /// three same pieces, one pinned
    pub sanpin: bool,
    /// all 65,536 values of each counter on a few positions
    pub clocks: bool,
    /// valid positions among the dense boards (long FEN fields, up to 32 men)
    pub dense: bool,
    /// a piece without moves boxed in by own men + a second piece of its kind
    pub boxed: bool,
    pub counters: bool,
    pub material: Option<Vec<u32>>,
    /// deep DFS without dedup from the first `n` seeds to the given depth
    pub dfs: Option<(usize, u32)>,
    /// HIST: positions reached by playing moves on the real board (never rebuilt from the model
    /// position): (depth of the DFS from every seed, depth of the DFS behind every special first
    /// move from the PROMO / CASTLE / EP roots); 0 switches a part off
    pub hist: Option<(u32, u32)>,
    /// MULTICHECK level: 1 = own king on c3, defenders Q N; 2 = + own king on e1 / e8, defender P;
    /// 3 = own king on the 8 spread squares, attackers up to distance 3, two enemy-king squares
    pub multicheck: Option<u8>,
    /// CHECKPIN level: 1 = own king on c3; 2 = + e1 / e8; 3 = the 8 spread squares, two enemy-king squares
    pub checkpin: Option<u8>,
    /// CASTLE2 + PAWNROW
    pub castle2: bool,
    /// HIST-COUNTERS: every line of <= n plies from every COUNTERS position, on the real board
    /// (counter values that only play can produce on a board)
    pub hist_counters: Option<u32>,
    /// COUNTS: many men of one kind per side
    pub counts: bool,
    /// BACKRANK (valid boards of the family)
    pub backrank: bool,
    /// REACH from n evenly spaced seeds only (0 = all 22; 11 = one of each mirror pair)
    pub reach_take: usize,
    /// PAWNCAP2 restricted to 4 of the 16 own-king squares
    pub pawncap2_light: bool,
    /// PROMOROW
    pub promorow: bool,
    /// ALIGNED (valid boards of the family)
    pub aligned: bool,
    /// HIST from the DISCOVER roots: pawn steps that uncover a check, on the real board
    pub hist_discover: bool,
    /// HEMMED: an enemy slider hemmed in by its own men, own king next to them
    pub hemmed: bool,
    /// BOXK: cornered king with at most one legal move; 1 = corners a1 / h8, 2 = all four
    pub boxk: Option<u8>,
}

impl Sel {
    pub fn standard(thorough: bool) -> Sel {
        if thorough {
            Sel {
                m3: true,
                ray: Some(3),
                ep: Some(true),
                castle: Some(true),
                promo: Some(true),
                reach: Some(4),
                m4: Some(uni::M4_SHARDS),
                pin2: Some(4),
                promo2: true,
                pawncap2: true,
                occ: true,
                battery: Some((7, true)),
                boxed: true,
                hist: Some((4, 3)),
                multicheck: Some(3),
                checkpin: Some(3),
                castle2: true,
                counts: true,
                promorow: true,
                boxk: Some(2),
                backrank: true,
                hemmed: true,
                aligned: true,
                hist_discover: true,
                ..Default::default()
            }
        } else {
            Sel {
                m3: true,
                ray: Some(2),
                ep: Some(false),
                castle: Some(false),
                promo: Some(false),
                reach: Some(3),
                pin2: Some(3),
                occ: true,
                promo2: true,
                battery: Some((3, false)),
                boxed: true,
                hist: Some((3, 2)),
                multicheck: Some(1),
                checkpin: Some(1),
                castle2: true,
                counts: true,
                promorow: true,
                boxk: Some(1),
                backrank: true,
                hemmed: true,
                aligned: true,
                hist_discover: true,
                ..Default::default()
            }
        }
    }
}

pub fn reach_states(depth: u32, max_states: usize) -> (Vec<(Pos, u32)>, bool) {
    reach_states_from(&uni::seeds(), depth, max_states)
}

pub fn reach_states_from(seeds: &[Pos], depth: u32, max_states: usize) -> (Vec<(Pos, u32)>, bool) {
    let parts: Vec<(Vec<(Pos, u32)>, bool)> = seeds
        .par_iter()
        .map(|s| uni::reach(&[*s], depth, max_states))
        .collect();
    let mut seen: HashSet<Pos> = HashSet::new();
    let mut all = Vec::new();
    let mut capped = false;
    for (v, c) in parts {
        capped |= c;
        for (p, d) in v {
            if seen.insert(p) {
                all.push((p, d));
            }
        }
    }
    (all, capped)
}

pub fn run_universes(run: &mut Run, sel: &Sel, disagree_idx: usize, check: PosCheck) {
    if sel.m3 {
        run.par_shards("M3 (<=3 men, all)", uni::M3_SHARDS, |ctx, sh| {
            uni::m3(sh, &mut |p| visit(ctx, p, disagree_idx, check));
        });
    }
    if let Some(n) = sel.ray {
        run.par_shards(
            &format!("RAY (<={} men on a king ray)", n),
            uni::RAY_SHARDS,
            |ctx, sh| {
                uni::ray(sh, n, &mut |p| visit(ctx, p, disagree_idx, check));
            },
        );
    }
    if let Some(full) = sel.ep {
        run.par_shards(
            if full { "EP (full)" } else if sel.ep_spread_only { "EP (quick, own king on 8 spread squares)" } else { "EP (quick)" },
            uni::EP_SHARDS,
            |ctx, sh| {
                if sel.ep_spread_only && !uni::SPREAD8.contains(&(sh / 2)) {
                    return;
                }
                uni::ep(sh, full, &mut |p| visit(ctx, p, disagree_idx, check));
            },
        );
    }
    if let Some(full) = sel.castle {
        run.par_shards(
            if full { "CASTLE (full)" } else { "CASTLE (quick)" },
            uni::CASTLE_SHARDS,
            |ctx, sh| {
                uni::castle(sh, full, &mut |p| visit(ctx, p, disagree_idx, check));
            },
        );
    }
    if let Some(full) = sel.promo {
        run.par_shards(
            if full { "PROMO (full)" } else { "PROMO (quick)" },
            uni::PROMO_SHARDS,
            |ctx, sh| {
                uni::promo(sh, full, &mut |p| visit(ctx, p, disagree_idx, check));
            },
        );
    }
    if let Some(n) = sel.pin2 {
        run.par_shards(&format!("PIN2 (two pin / x-ray lines through the king, distances <= {})", n), uni::PIN2_SHARDS, |ctx, sh| {
            uni::pin2(sh, n, &mut |p| visit(ctx, p, disagree_idx, check));
        });
    }
    if sel.occ {
        run.par_shards("OCC (every blocker subset on the rook / bishop lines of every square, as positions)", uni::OCC_SHARDS, |ctx, sh| {
            uni::occ(sh, &mut |p| visit(ctx, p, disagree_idx, check));
        });
    }
    if let Some((n, wide)) = sel.battery {
        run.par_shards(&format!("BATTERY (two enemy sliders in line with the king, distances <= {}, + one own man{})", n, if wide { ", all slider kinds" } else { "" }), uni::BATTERY_SHARDS, |ctx, sh| {
            uni::battery(sh, n, wide, &mut |p| visit(ctx, p, disagree_idx, check));
        });
    }
    if sel.promo2 {
        run.par_shards("PROMO2 (two pawns capturing onto one promotion square, +- enemy slider)", uni::PROMO2_SHARDS, |ctx, sh| {
            uni::promo2(sh, &mut |p| visit(ctx, p, disagree_idx, check));
        });
    }
    if sel.pawncap2 {
        let light = sel.pawncap2_light;
        run.par_shards(if light { "PAWNCAP2 (doubled pawns, two captures onto one file, +- enemy slider; own king on b2, f2, b6, f6)" } else { "PAWNCAP2 (doubled pawns, two captures onto one file, +- enemy slider)" }, uni::PAWNCAP2_SHARDS, |ctx, sh| {
            let ok = sh / 2;
            if light && !(file_of(ok) % 4 == 1 && rank_of(ok) % 4 == 1) {
                return;
            }
            uni::pawncap2(sh, &mut |p| visit(ctx, p, disagree_idx, check));
        });
    }
    if sel.sanpin {
        run.par_shards("SANPIN (three own pieces of one kind, one pinned)", uni::SANPIN_SHARDS, |ctx, sh| {
            uni::sanpin(sh, &mut |p| visit(ctx, p, disagree_idx, check));
        });
    }
    if sel.boxed {
        run.par_shards("BOXED (a piece boxed in by own men + a second piece of its kind anywhere)", uni::BOXED_SHARDS, |ctx, sh| {
            uni::boxed(sh, &mut |p| visit(ctx, p, disagree_idx, check));
        });
    }
    if sel.dense {
        run.par_shards("DENSE (valid positions among 6^8 x 2 boards with dense rank patterns)", uni::DENSE_SHARDS, |ctx, sh| {
            let cell = std::cell::RefCell::new(ctx);
            uni::dense(sh, &mut |_| {}, &mut |p| visit(*cell.borrow_mut(), p, disagree_idx, check));
        });
    }
    if sel.clocks {
        run.par_shards("CLOCKS (6 positions x all 65,536 values of each counter)", uni::CLOCKS_SHARDS, |ctx, sh| {
            uni::clocks(sh, &mut |p| visit(ctx, p, disagree_idx, check));
        });
    }
    if sel.sanmany {
        run.par_shards("SANMANY (2..8 own pieces of one kind all reaching one square, every subset)", uni::SANMANY_SHARDS, |ctx, sh| {
            uni::sanmany(sh, &mut |p| visit(ctx, p, disagree_idx, check));
        });
    }
    if let Some((n, pin)) = sel.sanamb {
        run.par_shards(
            &format!("SANAMB ({} same pieces{})", n, if pin { " + pinner" } else { "" }),
            uni::SANAMB_SHARDS,
            |ctx, sh| {
                uni::sanamb_k(sh, n, pin, if sel.sanamb_kings == 0 { 6 } else { sel.sanamb_kings }, &mut |p| visit(ctx, p, disagree_idx, check));
            },
        );
    }
    if let Some(clocks) = &sel.material {
        run.par_shards("MATERIAL (B/N on 8 squares)", uni::MATERIAL_SHARDS, |ctx, sh| {
            uni::material(sh, clocks, &mut |p| visit(ctx, p, disagree_idx, check));
        });
    }
    if sel.counters {
        let cs = uni::counters();
        let chunks: Vec<&[Pos]> = cs.chunks(64).collect();
        run.par_shards("COUNTERS (clocks and move numbers at limits)", chunks.len(), |ctx, sh| {
            for p in chunks[sh] {
                if is_valid_normal(p) {
                    visit(ctx, p, disagree_idx, check);
                }
            }
        });
    }
    if let Some(d) = sel.reach {
        let cap = if run.thorough() { 30_000_000 } else { 3_000_000 };
        // reach_take = n: every (22 / n)-th seed (11: the unmirrored member of each pair)
        let all_seeds = uni::seeds();
        let step = if sel.reach_take == 0 { 1 } else { (all_seeds.len() / sel.reach_take).max(1) };
        let picked: Vec<Pos> = all_seeds.iter().cloned().step_by(step).collect();
        let nseeds = picked.len();
        let (states, capped) = reach_states_from(&picked, d, cap);
        if capped {
            run.exhaustive = false;
            run.caps.push(format!(
                "REACH({}): state cap {} reached; explored the BFS prefix only",
                d, cap
            ));
        }
        let maxd = states.iter().map(|s| s.1).max().unwrap_or(0);
        // at least 256 shards where the states allow it: the per-state work of some properties is heavy
        let csize = (states.len() / 256).clamp(8, 2048);
        let chunks: Vec<&[(Pos, u32)]> = states.chunks(csize).collect();
        run.par_shards(
            &format!("REACH({}) from {} seeds, {} states, max depth {}", d, nseeds, states.len(), maxd),
            chunks.len(),
            |ctx, sh| {
                for (p, _) in chunks[sh] {
                    visit(ctx, p, disagree_idx, check);
                }
            },
        );
    }
    if let Some((nseeds, depth)) = sel.dfs {
        let seeds = uni::seeds();
        // shard by (seed, first move) for parallelism
        let mut roots: Vec<Pos> = Vec::new();
        for s in seeds.iter().take(nseeds) {
            for m in s.legal() {
                for m2 in s.apply(m).legal() {
                    roots.push(s.apply(m).apply(m2));
                }
            }
        }
        run.par_shards(
            &format!("DFS depth {} from {} seeds (no dedup)", depth, nseeds),
            roots.len(),
            |ctx, sh| {
                fn rec(ctx: &mut Ctx, p: &Pos, left: u32, di: usize, check: PosCheck) {
                    visit(ctx, p, di, check);
                    if left == 0 {
                        return;
                    }
                    for m in p.legal() {
                        rec(ctx, &p.apply(m), left - 1, di, check);
                    }
                }
                rec(ctx, &roots[sh], depth.saturating_sub(2), disagree_idx, check);
            },
        );
    }
    let kzone_kings = |level: u8| -> Vec<usize> {
        match level {
            1 => vec![18],
            2 => vec![18, 4, 60],
            _ => uni::SPREAD8.to_vec(),
        }
    };
    if let Some(level) = sel.multicheck {
        let ks = kzone_kings(level);
        let (maxd, defenders, neks): (i32, &[u8], usize) = match level {
            1 => (2, &[Q, N], 1),
            2 => (2, &[Q, N, P], 1),
            _ => (3, &[Q, N, P], 2),
        };
        run.par_shards(&format!("MULTICHECK (three men attacking the king, +- one own defender; level {})", level), ks.len() * 2 * uni::KZONE_PARTS, |ctx, j| {
            let sh = ks[j / (2 * uni::KZONE_PARTS)] * 2 + (j / uni::KZONE_PARTS) % 2;
            uni::multicheck(sh, j % uni::KZONE_PARTS, maxd, defenders, neks, &mut |p| visit(ctx, p, disagree_idx, check));
        });
    }
    if let Some(level) = sel.checkpin {
        let ks = kzone_kings(level);
        let neks = if level >= 3 { 2 } else { 1 };
        run.par_shards(&format!("CHECKPIN (a checker, a pinned own man and a free look-alike; level {})", level), ks.len() * 2 * uni::KZONE_PARTS, |ctx, j| {
            let sh = ks[j / (2 * uni::KZONE_PARTS)] * 2 + (j / uni::KZONE_PARTS) % 2;
            uni::checkpin(sh, j % uni::KZONE_PARTS, neks, &mut |p| visit(ctx, p, disagree_idx, check));
        });
    }
    if let Some(level) = sel.boxk {
        let shards: Vec<usize> = (0..uni::BOXK_SHARDS).filter(|sh| level >= 2 || sh / 2 == 0 || sh / 2 == 3).collect();
        run.par_shards(&format!("BOXK (cornered king, enemy king a knight's jump away, one checker, one own man anywhere, +- a seventh-rank pawn with a capture; {} corners)", shards.len() / 2), shards.len() * uni::KZONE_PARTS, |ctx, j| {
            uni::boxk(shards[j / uni::KZONE_PARTS], j % uni::KZONE_PARTS, &mut |p| visit(ctx, p, disagree_idx, check));
        });
    }
    if sel.promorow {
        run.par_shards("PROMOROW (every subset of own seventh-rank pawns x every subset of enemy knights on the eighth)", 32, |ctx, sh| {
            uni::promorow((sh / 16) as u8, sh % 16, &mut |p| visit(ctx, p, disagree_idx, check));
        });
    }
    if sel.aligned {
        run.par_shards("ALIGNED (a king with up to eight enemy sliders aligned at distance 2, each blocked or not; valid ones)", uni::ALIGNED_SHARDS, |ctx, sh| {
            uni::aligned(sh, &mut |r| {
                if let Ok(p) = r.validate() {
                    visit(ctx, &p, disagree_idx, check);
                }
            });
        });
    }
    if sel.hist_discover {
        run.par_shards("HIST-DISCOVER: pawn steps that uncover a check (with an en-passant mark), then every reply, on the real board", 2, |ctx, sh| {
            uni::discover(sh as u8, &mut |p| {
                let Some(b) = board_of(p) else { return };
                for m in p.legal() {
                    if kind(p.b[m.from as usize]) == P {
                        hist_step(ctx, p, p, &b, m, &mut Vec::new(), 1, disagree_idx, check);
                    }
                }
            });
        });
    }
    if sel.aligned {
        run.par_shards("EP2 (an en-passant capture beside a second own pawn with an enemy man behind it)", 2, |ctx, sh| {
            uni::ep2(sh as u8, &mut |p| visit(ctx, p, disagree_idx, check));
        });
    }
    if sel.hemmed {
        run.par_shards("HEMMED (an enemy slider whose neighbours in its move directions are all its own men, own king next to them)", uni::HEMMED_SHARDS, |ctx, sh| {
            uni::hemmed(sh, &mut |p| visit(ctx, p, disagree_idx, check));
        });
    }
    if sel.backrank {
        run.par_shards("PAWNWALL (all eight pawns and the king at home, two further own men of every kind pair on every pair of squares)", uni::PAWNWALL_SHARDS, |ctx, sh| {
            uni::pawnwall(sh, &mut |p| visit(ctx, p, disagree_idx, check));
        });
    }
    if sel.castle2 {
        run.par_shards("CASTLEFILE (king and rooks at home; one of the files c..g filled in every way with own pawns, enemy pawns and enemy rooks)", uni::CASTLEFILE_SHARDS, |ctx, sh| {
            uni::castlefile(sh, &mut |p| visit(ctx, p, disagree_idx, check));
        });
    }
    if sel.backrank {
        run.par_shards("BACKRANK (king, rooks and queens on the back rank behind a full, nearly full or absent pawn rank, enemy king on the same rank or far; valid ones)", uni::BACKRANK_SHARDS, |ctx, sh| {
            uni::backrank(sh, &mut |r| {
                if let Ok(p) = r.validate() {
                    visit(ctx, &p, disagree_idx, check);
                }
            });
        });
    }
    if sel.boxk.is_some() {
        run.par_shards("STUCK (stalemated cornered king, blocked pawn pairs on every subset of six files, one further own man anywhere: every legal move belongs to that man)", uni::STUCK_SHARDS, |ctx, sh| {
            uni::stuck(sh, &mut |p| visit(ctx, p, disagree_idx, check));
        });
    }
    if sel.counts {
        run.par_shards("COUNTS (0..15 men of one kind per side, every pair of kinds, two king placements)", uni::COUNTS_SHARDS, |ctx, sh| {
            uni::counts(sh, &mut |p| visit(ctx, p, disagree_idx, check));
        });
    }
    if sel.castle2 {
        run.par_shards("CASTLE2 (king and rooks at home, every pair of enemy men on the three nearest ranks)", uni::CASTLE2_SHARDS, |ctx, sh| {
            uni::castle2(sh, &mut |p| visit(ctx, p, disagree_idx, check));
        });
        run.par_shards("PAWNROW (king and rooks at home, every subset of enemy pawns on the rank in front)", 2, |ctx, sh| {
            uni::pawnrow(sh as u8, &mut |p| visit(ctx, p, disagree_idx, check));
        });
        run.par_shards("CASTLE3 (both sides with king and rooks at home, every rights set, one further man of any kind and colour anywhere)", uni::CASTLE3_SHARDS, |ctx, sh| {
            uni::castle3(sh, &mut |p| visit(ctx, p, disagree_idx, check));
        });
    }
    if let Some(depth) = sel.hist_counters {
        let roots = uni::counters();
        let chunks: Vec<&[Pos]> = roots.chunks(16).collect();
        run.par_shards(&format!("HIST-COUNTERS: every line of <= {} plies from the {} COUNTERS positions played on the real board", depth, roots.len()), chunks.len(), |ctx, sh| {
            for root in chunks[sh] {
                let Some(b) = board_of(root) else {
                    ctx.add(disagree_idx, 1);
                    continue;
                };
                for m in root.legal() {
                    hist_step(ctx, root, root, &b, m, &mut Vec::new(), depth - 1, disagree_idx, check);
                }
            }
        });
    }
    if let Some((seed_depth, special_depth)) = sel.hist {
        if seed_depth > 0 {
            let seeds = uni::seeds();
            let mut jobs: Vec<(Pos, Mv)> = Vec::new();
            for s in &seeds {
                for m in s.legal() {
                    jobs.push((*s, m));
                }
            }
            run.par_shards(
                &format!("HIST-SEEDS: every line of <= {} plies from {} seeds played on the real board (positions reached by history, not rebuilt)", seed_depth, seeds.len()),
                jobs.len(),
                |ctx, sh| {
                    let (root, m) = jobs[sh];
                    let Some(b) = board_of(&root) else { return };
                    hist_step(ctx, &root, &root, &b, m, &mut Vec::new(), seed_depth - 1, disagree_idx, check);
                },
            );
        }
        if special_depth > 0 {
            // with one further ply (quick tiers) the roots are those whose kings stand on e1 and e8
            // (either way round) or in the a1 / h8 corners; deeper tiers take every root
            let narrow = special_depth <= 2;
            let special = |ctx: &mut Ctx, p: &Pos| {
                if narrow {
                    let pair = (p.king_sq(0).unwrap_or(64), p.king_sq(1).unwrap_or(64));
                    if ![(4usize, 60usize), (60, 4), (0, 63), (63, 0)].contains(&pair) {
                        return;
                    }
                }
                let Some(b) = board_of(p) else { return };
                for m in p.legal() {
                    if m.flag != 0 || m.promo != 0 {
                        hist_step(ctx, p, p, &b, m, &mut Vec::new(), special_depth - 1, disagree_idx, check);
                    }
                }
            };
            run.par_shards(&format!("HIST-SPECIAL: PROMO (quick) roots, first move a promotion / double step, then every line of <= {} further plies, on the real board", special_depth - 1), uni::PROMO_SHARDS * 8, |ctx, sh| {
                let mut i = 0usize;
                uni::promo(sh / 8, false, &mut |p| {
                    i += 1;
                    if i % 8 == sh % 8 {
                        special(ctx, p);
                    }
                });
            });
            run.par_shards(&format!("HIST-SPECIAL: CASTLE (quick) roots, first move a castling / double step, then every line of <= {} further plies, on the real board", special_depth - 1), uni::CASTLE_SHARDS, |ctx, sh| {
                uni::castle(sh, false, &mut |p| special(ctx, p));
            });
            run.par_shards(&format!("HIST-SPECIAL: EP (quick, own king on 8 spread squares) roots, first move an en-passant capture / double step, then every line of <= {} further plies, on the real board", special_depth - 1), uni::EP_SHARDS, |ctx, sh| {
                if !uni::SPREAD8.contains(&(sh / 2)) {
                    return;
                }
                uni::ep(sh, false, &mut |p| special(ctx, p));
            });
        }
    }
    if let Some(maxd) = sel.m4_corner {
        let dist = |a: usize, b: usize| (file_of(a) - file_of(b)).abs().max((rank_of(a) - rank_of(b)).abs());
        // a negative bound means: the white-king-on-h8 half only
        let wk_only = maxd < 0;
        let maxd = maxd.abs();
        let shards: Vec<usize> = (0..uni::M4_SHARDS).filter(|sh| (sh / 64 == 63 || (!wk_only && sh % 64 == 7)) && dist(sh / 64, sh % 64) <= maxd).collect();
        run.par_shards(
            &format!("M4-corner (4 men, {} king-pair shards: wK on h8 or bK on h1, kings at most {} apart)", shards.len(), maxd),
            shards.len() * 64,
            |ctx, i| {
                uni::m4_x(shards[i / 64], Some(i % 64), &mut |p| visit(ctx, p, disagree_idx, check));
            },
        );
    }
    if let Some(n) = sel.m4 {
        let n = n.min(uni::M4_SHARDS);
        if n < uni::M4_SHARDS {
            run.caps.push(format!(
                "M4: only the first {} of {} (white king, black king) shards requested",
                n,
                uni::M4_SHARDS
            ));
        }
        run.par_shards(
            &format!("M4 (4 men, {} of 4096 king-pair shards)", n),
            n,
            |ctx, sh| {
                uni::m4(sh, &mut |p| visit(ctx, p, disagree_idx, check));
            },
        );
    }
}

pub fn standard_position_universes(run: &mut Run, thorough: bool, disagree_idx: usize, check: PosCheck) {
    let sel = Sel::standard(thorough);
    run_universes(run, &sel, disagree_idx, check);
}

/// replay of a "pos" case (also used for crash cases)
/// HIST: play `m` from (p, board) on the real board, check the position reached with the board
/// that was made (not rebuilt), and go on for `left` more plies. Violations found by `check`
/// are re-labelled with the history that leads to the position.
#[allow(clippy::too_many_arguments)]
pub fn hist_step(ctx: &mut Ctx, root: &Pos, p: &Pos, board: &Board, m: Mv, path: &mut Vec<Mv>, left: u32, disagree_idx: usize, check: PosCheck) {
    use crate::model::text;
    let Ok(mv) = to_move(p, m) else { return };
    let nb = match guarded(|| board.make_move(mv)) {
        Ok(Ok(nb)) => nb,
        _ => {
            // a refused or panicking legal move is the business of C02 / C03
            ctx.add(disagree_idx, 1);
            return;
        }
    };
    // the implementation's counters saturate at 65535
    let mut q = p.apply(m);
    q.hmc = q.hmc.min(65535);
    q.fmn = q.fmn.min(65535);
    path.push(m);
    let first_new = ctx.viol.len();
    set_slot_hist(root, path);
    if let Err(msg) = guarded(|| check(ctx, &q, &nb)) {
        ctx.violate(case_pos(&q, "panic"), format!("panic: {}", msg));
    }
    for v in ctx.viol[first_new..].iter_mut() {
        v.case = serde_json::json!({"kind": "hist", "fen": text::fen(root), "path": path.iter().map(|&x| text::uci(x)).collect::<Vec<_>>(), "inner": v.case.clone()});
    }
    if left > 0 {
        for m2 in q.legal() {
            hist_step(ctx, root, &q, &nb, m2, path, left - 1, disagree_idx, check);
        }
    }
    path.pop();
}

fn replay_hist(case: &Value, ctx: &mut Ctx, check: PosCheck) {
    use crate::model::text;
    let Some(root) = case["fen"].as_str().and_then(text::read_fen) else { return };
    let Some(mut board) = board_of(&root) else { return };
    let mut p = root;
    for u in case["path"].as_array().cloned().unwrap_or_default() {
        let Some(u) = u.as_str() else { return };
        let Some(m) = p.legal().into_iter().find(|m| text::uci(*m) == u) else { return };
        let Ok(mv) = to_move(&p, m) else { return };
        let Ok(nb) = board.make_move(mv) else { return };
        board = nb;
        p = p.apply(m);
        p.hmc = p.hmc.min(65535);
        p.fmn = p.fmn.min(65535);
    }
    check(ctx, &p, &board);
}

pub fn replay_pos(case: &Value, ctx: &mut Ctx, check: PosCheck) {
    if case["kind"].as_str() == Some("hist") {
        return replay_hist(case, ctx, check);
    }
    let p = match pos_of_case(case) {
        Some(p) => p,
        None => {
            ctx.violate(case.clone(), "replay: cannot read the position of this case".into());
            return;
        }
    };
    match board_of(&p) {
        Some(b) => check(ctx, &p, &b),
        None => ctx.violate(
            case.clone(),
            "replay: owlchess does not accept this model-valid position unchanged".into(),
        ),
    }
}

/// One deep execution on ONE mutable board: make every move of the line with the undo-returning
/// interface, comparing the board after every ply with a freshly validated board of the model
/// position (a from-scratch computation of every field, the hash and all sets), then unmake them
/// all in reverse, comparing with the snapshot taken before each move. Returns the plies made.
pub fn deep_line(ctx: &mut Ctx, root: &Pos, moves: &[Mv], kind: &str) -> usize {
    use crate::model::text;
    use owlchess::moves::{make_move_unchecked, unmake_move_unchecked};
    let case = |upto: usize| serde_json::json!({"kind": kind, "fen": text::fen(root), "path": moves[..upto].iter().map(|&m| text::uci(m)).collect::<Vec<_>>()});
    let Some(mut board) = board_of(root) else { return 0 };
    let mut p = *root;
    let mut stack = Vec::new();
    for (i, &m) in moves.iter().enumerate() {
        if !p.legal().contains(&m) {
            ctx.violate(case(i + 1), "line move not legal in the model".into());
            return i;
        }
        let Ok(mv) = to_move(&p, m) else { return i };
        let before = full(&board);
        let undo = unsafe { make_move_unchecked(&mut board, mv) };
        stack.push((mv, undo, before));
        p = p.apply(m);
        let mut q = p;
        q.hmc = q.hmc.min(65535);
        q.fmn = q.fmn.min(65535);
        ctx.transitions += 1;
        ctx.states += 1;
        match board_of(&q) {
            Some(t) => {
                let (a, b) = (full(&board), full(&t));
                if a != b {
                    ctx.violate(case(i + 1), format!("after ply {} the board made in place differs from a board of the same position built from scratch: {}", i + 1, full_diff(&a, &b)));
                    return i;
                }
            }
            None => {
                ctx.violate(case(i + 1), format!("after ply {} the model position is refused by validation", i + 1));
                return i;
            }
        }
    }
    let n = stack.len();
    while let Some((mv, undo, before)) = stack.pop() {
        unsafe { unmake_move_unchecked(&mut board, mv, undo) };
        ctx.transitions += 1;
        let after = full(&board);
        if after != before {
            ctx.violate(case(n), format!("unwinding a line of {} plies: after undoing ply {} the board differs from what it was before that ply: {}", n, stack.len() + 1, full_diff(&after, &before)));
            return n;
        }
    }
    n
}

/// replay of a `deep_line` case
pub fn replay_deep(case: &Value, ctx: &mut Ctx, kind: &str) {
    use crate::model::text;
    let Some(root) = case["fen"].as_str().and_then(text::read_fen) else { return };
    let mut p = root;
    let mut moves = Vec::new();
    for u in case["path"].as_array().cloned().unwrap_or_default() {
        let Some(u) = u.as_str() else { return };
        let Some(m) = p.legal().into_iter().find(|m| text::uci(*m) == u) else { return };
        moves.push(m);
        p = p.apply(m);
    }
    deep_line(ctx, &root, &moves, kind);
}

/// the LONG lines of a tier as (root, moves)
pub fn long_lines(thorough: bool) -> Vec<(Pos, Vec<Mv>)> {
    let seeds = uni::seeds();
    uni::long_params(thorough).into_iter().map(|(s, a, b)| (seeds[s], uni::long_line(&seeds[s], a, b, uni::long_max(thorough)))).collect()
}
