//! C18 - White and Black, and left and right, are treated symmetrically
//! (metamorphic: the implementation against its own mirror image; no reference model)

use crate::bind::*;
use crate::engine::*;
use crate::model::*;
use crate::props::common::*;
use crate::universe::{mirror_colours, mirror_files};
use owlchess::movegen::legal;
use owlchess::{Board, Color, Outcome};
use serde_json::{json, Value};

pub const NAMES: &[&str] = &[
    "colour_mirror_pairs",
    "file_mirror_pairs",
    "self_symmetric",
    "in_check",
    "with_outcome",
    "with_castling_rights",
    "with_ep",
    "model_impl_validity_disagreements",
    "mirrored_games",
    "mirrored_game_plies",
];
const CM: usize = 0;
const FM: usize = 1;
const SELF: usize = 2;
const CHECK: usize = 3;
const OUT: usize = 4;
const CR: usize = 5;
const EP: usize = 6;
const DISAGREE: usize = 7;
const MGAMES: usize = 8;
const MPLIES: usize = 9;

fn mirror_sq_c(s: u8) -> u8 {
    sq(file_of(s as usize), 7 - rank_of(s as usize)) as u8
}
fn mirror_sq_f(s: u8) -> u8 {
    sq(7 - file_of(s as usize), rank_of(s as usize)) as u8
}

fn swap_winner(o: Option<Outcome>) -> Option<Outcome> {
    o.map(|o| match o {
        Outcome::Win { side, reason } => Outcome::Win { side: if side == Color::White { Color::Black } else { Color::White }, reason },
        d => d,
    })
}

fn compare(ctx: &mut Ctx, p: &Pos, b: &Board, q: &Pos, colour_swap: bool, what: &str) {
    let bm = match board_of(q) {
        Some(x) => x,
        None => {
            ctx.violate(case_pos(p, what), format!("the mirror image {} is not accepted unchanged by validation", crate::model::text::fen(q)));
            return;
        }
    };
    // legal moves of the mirror = mirror images (kind-preserving)
    let map = |k: MKey| -> MKey {
        let (kind, cell, s, d) = k;
        if colour_swap {
            (kind, cell ^ BLACK, mirror_sq_c(s), mirror_sq_c(d))
        } else {
            // castling kinds swap sides under a left-right mirror, but positions with rights are excluded
            (kind, cell, mirror_sq_f(s), mirror_sq_f(d))
        }
    };
    let orig = legal::gen_all(b);
    let mut a: Vec<MKey> = orig.iter().map(|m| map(key_of_move(m))).collect();
    a.sort();
    let mut m: Vec<MKey> = legal::gen_all(&bm).iter().map(key_of_move).collect();
    m.sort();
    ctx.transitions += a.len() as u64;
    if a != m {
        ctx.violate(
            case_pos(p, what),
            format!("legal moves of the mirror image differ from the mirrored legal moves: only-in-mirrored-original {:?}, only-in-mirror {:?}", diff_keys(&a, &m), diff_keys(&m, &a)),
        );
    }
    if b.is_check() != bm.is_check() {
        ctx.violate(case_pos(p, what), "is_check differs between a position and its mirror image".into());
    }
    let (o1, o2) = (b.calc_outcome(), bm.calc_outcome());
    let want = if colour_swap { swap_winner(o1) } else { o1 };
    if want != o2 {
        ctx.violate(case_pos(p, what), format!("calc_outcome {:?} vs mirror {:?}", o1, o2));
    }
    if b.has_legal_moves() != bm.has_legal_moves() {
        ctx.violate(case_pos(p, what), "has_legal_moves differs between a position and its mirror image".into());
    }
    // successor of the mirrored move = mirror of the successor
    for mv in orig.iter() {
        ctx.traces += 1;
        let mm = mv_of_move(mv);
        let mq = if colour_swap {
            Mv { from: mirror_sq_c(mm.from), to: mirror_sq_c(mm.to), ..mm }
        } else {
            Mv { from: mirror_sq_f(mm.from), to: mirror_sq_f(mm.to), ..mm }
        };
        let (Ok(s1), Ok(mvq)) = (b.make_move(*mv), to_move(q, mq)) else {
            ctx.violate(case_pos_mv(p, what, mm), "a generated legal move (or its mirror image) cannot be made".into());
            continue;
        };
        let Ok(s2) = bm.make_move(mvq) else {
            ctx.violate(case_pos_mv(p, what, mm), "the mirror image of a legal move is refused in the mirrored position".into());
            continue;
        };
        // the move number depends on who moved (it advances after Black's move), so it is not
        // part of the symmetry; everything else is
        let mut p1 = pos_of_board(&s1);
        p1.fmn = 0;
        let want = if colour_swap { mirror_colours(&p1) } else { mirror_files(&p1) };
        let mut got = pos_of_board(&s2);
        got.fmn = 0;
        if got != want {
            ctx.violate(case_pos_mv(p, what, mm), "successor of the mirrored move is not the mirror of the successor".into());
        }
    }
}

pub fn check_pos(ctx: &mut Ctx, p: &Pos, b: &Board) {
    ctx.states += 1;
    if b.is_check() {
        ctx.add(CHECK, 1);
    }
    if p.cr.iter().any(|&x| x) {
        ctx.add(CR, 1);
    }
    if p.ep.is_some() {
        ctx.add(EP, 1);
    }
    if b.calc_outcome().is_some() {
        ctx.add(OUT, 1);
    }
    let q = mirror_colours(p);
    if q == *p {
        ctx.add(SELF, 1);
    }
    ctx.add(CM, 1);
    compare(ctx, p, b, &q, true, "colour mirror");
    if !p.cr.iter().any(|&x| x) {
        ctx.add(FM, 1);
        let r = mirror_files(p);
        compare(ctx, p, b, &r, false, "left-right mirror");
    }
    if ctx.samples.is_empty() {
        ctx.samples.push(json!({"fen": crate::model::text::fen(p), "colour_mirror": crate::model::text::fen(&q)}));
    }
}

/// a game and its colour mirror played on two move chains: the calculated outcome (which looks at
/// the whole history: repetitions) must be the same with the winner swapped after every ply
fn mirrored_game(ctx: &mut Ctx, start: &Pos, moves: &[Mv], case: &dyn Fn() -> Value) {
    use owlchess::MoveChain;
    let ms = mirror_colours(start);
    let (Some(ba), Some(bb)) = (board_of(start), board_of(&ms)) else { return };
    let (mut ca, mut cb) = (MoveChain::new(ba), MoveChain::new(bb));
    let (mut p, mut q) = (*start, ms);
    ctx.add(MGAMES, 1);
    for (i, &m) in moves.iter().enumerate() {
        let mm = Mv { from: mirror_sq_c(m.from), to: mirror_sq_c(m.to), promo: m.promo, flag: m.flag };
        let (Ok(mva), Ok(mvb)) = (to_move(&p, m), to_move(&q, mm)) else { return };
        let (ra, rb) = (ca.push(mva).is_ok(), cb.push(mvb).is_ok());
        if ra != rb {
            ctx.violate(case(), format!("ply {}: the move is accepted = {} but its mirror image is accepted = {}", i + 1, ra, rb));
            return;
        }
        if !ra {
            return;
        }
        p = p.apply(m);
        q = q.apply(mm);
        ctx.add(MPLIES, 1);
        ctx.states += 1;
        ctx.transitions += 2;
        let (oa, ob) = (ca.calc_outcome(), cb.calc_outcome());
        if swap_winner(oa) != ob {
            ctx.violate(case(), format!("after ply {} the game's calculated outcome is {:?} but the mirrored game's is {:?}", i + 1, oa, ob));
            return;
        }
    }
}

pub fn run(run: &mut Run) {
    run.counter_names = NAMES;
    run.assumptions = vec![
        "metamorphic oracle: the implementation against itself on the mirrored position; only the mirroring maps and the binding layer are trusted".into(),
    ];
    let thorough = run.thorough();
    let mut sel = Sel::standard(thorough);
    sel.ray = None;
    run_universes(run, &sel, DISAGREE, &check_pos);
    // whole games against their mirror images (history-dependent classification: repetitions)
    let ll = long_lines(thorough);
    run.par_shards(&format!("MIRRORED GAMES: {} LONG lines and 64 capture-and-return lines against their colour mirrors on move chains", ll.len()), ll.len() + 64, |ctx, i| {
        if i < ll.len() {
            let params = crate::universe::long_params(thorough)[i];
            mirrored_game(ctx, &ll[i].0, &ll[i].1, &|| json!({"kind": "mirrored_game", "family": "LONG", "seed": params.0, "a": params.1, "b": params.2, "max": crate::universe::long_max(thorough)}));
        } else if let Some((start, line)) = crate::universe::capture_return_line(i - ll.len()) {
            mirrored_game(ctx, &start, &line, &|| json!({"kind": "mirrored_game", "family": "CAPRET", "sq": i - ll.len()}));
        }
    });
}

pub fn replay(case: &Value, ctx: &mut Ctx) {
    if case["kind"].as_str() == Some("mirrored_game") {
        let g = |k: &str| case[k].as_u64().unwrap_or(0) as usize;
        let c = case.clone();
        if case["family"].as_str() == Some("CAPRET") {
            if let Some((start, line)) = crate::universe::capture_return_line(g("sq")) {
                mirrored_game(ctx, &start, &line, &|| c.clone());
            }
        } else {
            let seeds = crate::universe::seeds();
            let s = seeds[g("seed") % seeds.len()];
            let line = crate::universe::long_line(&s, g("a"), g("b"), g("max"));
            mirrored_game(ctx, &s, &line, &|| c.clone());
        }
        return;
    }
    replay_pos(case, ctx, &check_pos);
}
