//! C09 - SAN output is standard; SAN input resolves only to the legal move it describes

use crate::bind::*;
use crate::engine::*;
use crate::model::text;
use crate::model::*;
use crate::props::common::*;
use crate::props::strs;
use owlchess::moves::{san, Style};
use owlchess::{Board, Move};
use serde_json::{json, Value};
use std::collections::HashSet;

pub const NAMES: &[&str] = &[
    "formatted_moves",
    "needing_disambiguation",
    "file_disambiguation",
    "rank_disambiguation",
    "full_disambiguation",
    "checks",
    "mates",
    "castlings",
    "en_passant",
    "promotions",
    "illegal_moves_refused_by_san",
    "strings_parsed",
    "strings_accepted",
    "accepted_unreadable_by_model",
    "ambiguous_refused",
    "pinned_candidate_excluded",
    "model_impl_validity_disagreements",
];
const FMT: usize = 0;
const DIS: usize = 1;
const DFILE: usize = 2;
const DRANK: usize = 3;
const DFULL: usize = 4;
const CHK: usize = 5;
const MATE: usize = 6;
const CASTLE: usize = 7;
const EPC: usize = 8;
const PROMO: usize = 9;
const ILLREF: usize = 10;
const SPARSED: usize = 11;
const SACC: usize = 12;
const SUNREAD: usize = 13;
const AMBREF: usize = 14;
const PINEXCL: usize = 15;
const DISAGREE: usize = 16;

fn glyph(c: char) -> char {
    match c {
        'N' => '\u{2658}',
        'B' => '\u{2657}',
        'R' => '\u{2656}',
        'Q' => '\u{2655}',
        'K' => '\u{2654}',
        x => x,
    }
}

/// the documented UTF-8 style: piece letters become white chess glyphs, promotion drops the `=`
fn utf8_of(san: &str) -> String {
    let mut out = String::new();
    let chars: Vec<char> = san.chars().collect();
    let mut i = 0;
    while i < chars.len() {
        let c = chars[i];
        if c == '=' {
            i += 1;
            continue;
        }
        if c == 'O' {
            out.push(c);
        } else {
            out.push(glyph(c));
        }
        i += 1;
    }
    out
}

/// soundness of parsing one text in one position
pub fn check_text(ctx: &mut Ctx, p: &Pos, b: &Board, legal: &[Mv], t: &str) {
    ctx.add(SPARSED, 1);
    ctx.transitions += 1;
    let got = match guarded(|| Move::from_san(t, b)) {
        Ok(g) => g,
        Err(m) => {
            ctx.violate(json!({"kind": "pos", "fen": text::fen(p), "what": "from_san panic", "text": t}), format!("from_san(`{}`) panicked: {}", t, m));
            return;
        }
    };
    let desc = text::read_san(t);
    let agreeing: Vec<Mv> = match &desc {
        Some(d) => legal.iter().cloned().filter(|&m| text::agrees(p, m, d)).collect(),
        None => vec![],
    };
    match got {
        Ok(mv) => {
            ctx.add(SACC, 1);
            let m = mv_of_move(&mv);
            let k = key_of_move(&mv);
            let is_legal = legal.iter().any(|&l| key_of_mv(p, l) == k);
            if !is_legal {
                ctx.violate(json!({"kind": "pos", "fen": text::fen(p), "what": "from_san legality", "text": t}), format!("from_san(`{}`) returned {} which is not a legal move", t, text::uci(m)));
                return;
            }
            match &desc {
                None => ctx.add(SUNREAD, 1),
                Some(d) => {
                    if !text::agrees(p, m, d) {
                        ctx.violate(json!({"kind": "pos", "fen": text::fen(p), "what": "from_san agreement", "text": t}), format!("from_san(`{}`) returned {} which does not agree with what the text says ({:?})", t, text::uci(m), d));
                    } else if agreeing.len() >= 2 {
                        ctx.violate(json!({"kind": "pos", "fen": text::fen(p), "what": "from_san ambiguity", "text": t}), format!("from_san(`{}`) chose {} although {} legal moves agree with the text", t, text::uci(m), agreeing.len()));
                    }
                }
            }
        }
        Err(_) => {
            if agreeing.len() >= 2 {
                ctx.add(AMBREF, 1);
            }
        }
    }
}

/// mode 0: formatting and round trip of every legal move; 1: + all 576 abbreviated pawn-capture
/// forms; 2: + every single-edit neighbour of every canonical text
pub fn check_pos_opt(ctx: &mut Ctx, p: &Pos, b: &Board, mode: u8) {
    let edits = mode >= 2;
    ctx.states += 1;
    let pseudo = p.pseudo_vec();
    let legal: Vec<Mv> = pseudo.iter().cloned().filter(|&m| p.is_legal(m)).collect();
    let mut texts: HashSet<String> = HashSet::new();
    let mut canon: Vec<String> = Vec::new();
    for &m in &pseudo {
        let Ok(mv) = to_move(p, m) else { continue };
        let is_legal = legal.contains(&m);
        if !is_legal {
            // formatting an illegal move is refused
            ctx.add(ILLREF, 1);
            if mv.is_semilegal(b) && mv.san(b).is_ok() {
                ctx.violate(case_pos_mv(p, "san of illegal move", m), "Move::san accepts an illegal move".into());
            }
            // a pinned piece must not count as a disambiguation candidate
            if m.flag == 0 && kind(p.b[m.from as usize]) != P && legal.iter().any(|l| l.to == m.to && l.flag == 0 && kind(p.b[l.from as usize]) == kind(p.b[m.from as usize])) {
                ctx.add(PINEXCL, 1);
            }
            continue;
        }
        ctx.transitions += 1;
        ctx.traces += 1;
        ctx.add(FMT, 1);
        let want = text::san(p, &legal, m);
        match m.flag {
            2 => ctx.add(EPC, 1),
            3 | 4 => ctx.add(CASTLE, 1),
            _ => {}
        }
        if m.promo != 0 {
            ctx.add(PROMO, 1);
        }
        if want.ends_with('+') {
            ctx.add(CHK, 1);
        }
        if want.ends_with('#') {
            ctx.add(MATE, 1);
        }
        if m.flag == 0 && kind(p.b[m.from as usize]) != P {
            // disambiguation statistics from the text: letters between piece and destination
            let core = want.trim_end_matches(['+', '#']);
            let extra = core.len() - 3 - if core.contains('x') { 1 } else { 0 };
            if extra > 0 {
                ctx.add(DIS, 1);
                let c = core.as_bytes()[1];
                if extra == 2 {
                    ctx.add(DFULL, 1);
                } else if c.is_ascii_digit() {
                    ctx.add(DRANK, 1);
                } else {
                    ctx.add(DFILE, 1);
                }
            }
        }
        let sm = match mv.san(b) {
            Ok(s) => s,
            Err(e) => {
                ctx.violate(case_pos_mv(p, "Move::san", m), format!("Move::san refused a legal move: {}", e));
                continue;
            }
        };
        let got = sm.to_string();
        // the direct constructor behind Move::san
        match san::Move::from_move(mv, b) {
            Ok(d) if d.to_string() == got => {}
            other => ctx.violate(case_pos_mv(p, "san::Move::from_move", m), format!("san::Move::from_move gives {:?} but Move::san gives `{}`", other.map(|d| d.to_string()), got)),
        }
        if got != want {
            ctx.violate(case_pos_mv(p, "SAN text", m), format!("SAN text `{}` but standard algebraic notation is `{}`", got, want));
        }
        if !texts.insert(got.clone()) {
            ctx.violate(case_pos_mv(p, "SAN distinct", m), format!("two distinct legal moves share the SAN text `{}`", got));
        }
        match Move::from_san(&got, b) {
            Ok(back) if back == mv => {}
            other => ctx.violate(case_pos_mv(p, "from_san(san)", m), format!("parsing `{}` back gives {:?}", got, other)),
        }
        match got.parse::<san::Move>() {
            Ok(v) if v == sm => {}
            other => ctx.violate(case_pos_mv(p, "san::Move parse(format)", m), format!("`{}` parses to {:?}, not to the value {:?} it was formatted from", got, other, sm)),
        }
        // styled variants
        match (mv.styled(b, Style::San), mv.styled(b, Style::SanUtf8), mv.styled(b, Style::Uci)) {
            (Ok(a), Ok(u), Ok(c)) => {
                if a.to_string() != want {
                    ctx.violate(case_pos_mv(p, "styled San", m), format!("styled(San) = `{}`, expected `{}`", a, want));
                }
                let wu = utf8_of(&want);
                if u.to_string() != wu || sm.styled(san::Style::Utf8).to_string() != wu {
                    ctx.violate(case_pos_mv(p, "styled SanUtf8", m), format!("styled(SanUtf8) = `{}`, expected `{}`", u, wu));
                }
                if c.to_string() != text::uci(m) {
                    ctx.violate(case_pos_mv(p, "styled Uci", m), format!("styled(Uci) = `{}`, expected `{}`", c, text::uci(m)));
                }
            }
            _ => ctx.violate(case_pos_mv(p, "styled", m), "styled() refused a legal move".into()),
        }
        canon.push(want);
    }
    // what a player would write without disambiguation, for every pseudo-legal move (legal or
    // not): ambiguous, illegal or fine - the parser must be sound on it
    {
        let mut seen: HashSet<String> = HashSet::new();
        for &m in &pseudo {
            let t = text::san_naive(p, m);
            if seen.insert(t.clone()) {
                check_text(ctx, p, b, &legal, &t);
            }
            // the coordinate spelling, which the SAN reader also takes: of every pseudo-legal
            // move that is not legal (must be refused) and of the first legal one
            if !legal.contains(&m) || legal.first() == Some(&m) {
                check_text(ctx, p, b, &legal, &text::uci(m));
            }
            // abbreviated form of pawn captures
            if kind(p.b[m.from as usize]) == P && m.from % 8 != m.to % 8 {
                let t = text::san_short(m);
                if seen.insert(t.clone()) {
                    check_text(ctx, p, b, &legal, &t);
                }
            }
        }
    }
    // the castling texts in every position (legal or not): a returned move must be the legal castling
    for t in ["O-O", "O-O-O"] {
        check_text(ctx, p, b, &legal, t);
    }
    // parsing soundness on the canonical texts' neighbourhood and the short pawn captures
    if edits {
        for t in &canon {
            strs::edits1(t, &strs::SIGMA_SAN, &mut |s| check_text(ctx, p, b, &legal, s));
        }
    }
    let mut s = String::new();
    for f1 in 0..8u8 {
        if mode == 0 {
            break;
        }
        for f2 in 0..8u8 {
            for suffix in ["", "=N", "=B", "=R", "=Q", "N", "B", "R", "Q"] {
                s.clear();
                s.push((b'a' + f1) as char);
                s.push((b'a' + f2) as char);
                s.push_str(suffix);
                check_text(ctx, p, b, &legal, &s);
            }
        }
    }
    if ctx.samples.is_empty() && !canon.is_empty() {
        ctx.samples.push(json!({"fen": text::fen(p), "san_of_legal_moves": canon}));
    }
}

pub fn check_pos(ctx: &mut Ctx, p: &Pos, b: &Board) {
    check_pos_opt(ctx, p, b, 0)
}

pub fn check_pos_short(ctx: &mut Ctx, p: &Pos, b: &Board) {
    check_pos_opt(ctx, p, b, 1)
}

pub fn check_pos_edits(ctx: &mut Ctx, p: &Pos, b: &Board) {
    check_pos_opt(ctx, p, b, 2)
}

/// every string of exactly `len` symbols over SIGMA_SAN on the given positions
pub fn all_strings(run: &mut Run, positions: &[Pos], len: usize, label: &str) {
    let k = strs::SIGMA_SAN.len();
    let total = strs::count(k, len);
    let shards = (k * k).min(total as usize).max(1);
    let per = total / shards as u64;
    let boards: Vec<(Pos, Board, Vec<Mv>)> = positions.iter().filter_map(|p| board_of(p).map(|b| (*p, b, p.legal()))).collect();
    run.par_shards(&format!("STR-SAN all strings of {} symbols over {} x {} positions ({})", len, k, boards.len(), label), shards, |ctx, sh| {
        let mut s = String::new();
        let lo = sh as u64 * per;
        let hi = if sh == shards - 1 { total } else { lo + per };
        for idx in lo..hi {
            strs::nth(&strs::SIGMA_SAN, len, idx, &mut s);
            set_slot_text(9, &s);
            for (p, b, legal) in &boards {
                ctx.states += 1;
                check_text(ctx, p, b, legal, &s);
            }
        }
    });
}

pub fn run(run: &mut Run) {
    run.counter_names = NAMES;
    run.assumptions = vec![
        "reference model refchess: independent SAN writer (standard disambiguation among legal moves, marks from the successor) and a permissive descriptor reader".into(),
        "texts the descriptor reader cannot read but owlchess accepts are checked for legality only (counted as accepted_unreadable_by_model)".into(),
    ];
    let thorough = run.thorough();
    // formatting + round trip everywhere
    let sel = if thorough {
        Sel { m3: true, ray: Some(3), ep: Some(true), castle: Some(true), promo: Some(true), reach: Some(4), sanamb: Some((3, true)), pin2: Some(4), sanmany: true, sanpin: true, pawncap2: true, promo2: true, battery: Some((7, true)), multicheck: Some(3), checkpin: Some(3), castle2: true, hemmed: true, counts: true, promorow: true, hist: Some((3, 2)), ..Default::default() }
    } else {
        Sel { m3: true, ep: Some(false), ep_spread_only: true, castle: Some(false), promo: Some(false), reach: Some(3), reach_take: 11, sanamb: Some((3, false)), sanamb_kings: 2, m4_corner: Some(-2), pin2: Some(2), sanmany: true, sanpin: true, pawncap2: true, pawncap2_light: true, battery: Some((2, false)), multicheck: Some(1), checkpin: Some(1), castle2: true, hemmed: true, counts: true, promorow: true, ..Default::default() }
    };
    run_universes(run, &sel, DISAGREE, &check_pos);
    if thorough {
        let sel4 = Sel { sanamb: Some((4, false)), ..Default::default() };
        run_universes(run, &sel4, DISAGREE, &check_pos);
    }
    // abbreviated pawn-capture forms where pawns are
    let sels = if thorough {
        Sel { ep: Some(false), promo: Some(false), reach: Some(3), ..Default::default() }
    } else {
        Sel { promo: Some(false), ..Default::default() }
    };
    run.notes.push("short forms: all 576 texts [a-h][a-h](=?[NBRQ])? parsed in every state of the listed universes (and of the edit universes)".into());
    run_universes(run, &sels, DISAGREE, &check_pos_short);
    // single-edit neighbourhoods of every canonical text
    let sele = if thorough { Sel { reach: Some(2), ep: Some(false), ..Default::default() } } else { Sel { reach: Some(2), ..Default::default() } };
    if !thorough {
        // quick: the en-passant family gets the abbreviated forms, the edits run on REACH(2)
        let selep = Sel { ep: Some(false), ep_spread_only: true, ..Default::default() };
        run_universes(run, &selep, DISAGREE, &check_pos_short);
    }
    run.notes.push("edits: every single-edit neighbour (substitution, insertion, deletion over the 28-symbol alphabet) of every canonical SAN text, in the state where it is canonical".into());
    run_universes(run, &sele, DISAGREE, &check_pos_edits);
    // all strings over the class alphabet on P30
    let p30 = strs::p30();
    for len in 1..=4 {
        all_strings(run, &p30, len, "P30");
    }
    if thorough {
        all_strings(run, &p30, 5, "P30");
        all_strings(run, &p30[..4], 6, "first 4 of P30");
    } else {
        all_strings(run, &p30[..8], 5, "first 8 of P30");
    }
}

pub fn replay(case: &Value, ctx: &mut Ctx) {
    if case["kind"].as_str() == Some("str") {
        let bytes: Vec<u8> = case["text_bytes"].as_array().map(|a| a.iter().filter_map(|x| x.as_u64().map(|b| b as u8)).collect()).unwrap_or_default();
        let Ok(t) = String::from_utf8(bytes) else { return };
        for p in strs::p30() {
            let Some(b) = board_of(&p) else { continue };
            check_text(ctx, &p, &b, &p.legal(), &t);
        }
        return;
    }
    if let Some(t) = case["text"].as_str() {
        let Some(p) = pos_of_case(case) else { return };
        let Some(b) = board_of(&p) else { return };
        check_text(ctx, &p, &b, &p.legal(), t);
        return;
    }
    replay_pos(case, ctx, &check_pos_edits);
}
