//! C13 - a move chain is a faithful, reversible record of the game
//! C14 - repetition counting and the chain's outcome follow the game history
//! (one exploration engine, chains.rs; the `family` argument selects the oracle)

use crate::engine::*;
use crate::props::chains::*;
use owlchess::MoveChain;
use serde_json::{json, Value};

fn explore(run: &mut Run, family: u8) {
    run.counter_names = NAMES;
    run.max_idx = MAX_IDX;
    let thorough = run.thorough();
    let gs = games(thorough);
    // shard = (game, first operation): each shard runs its own BFS below that first operation
    // (merging only within the shard, which costs duplicates but never soundness)
    let mut jobs: Vec<(usize, Option<Op>)> = Vec::new();
    for (gi, g) in gs.iter().enumerate() {
        if g.alphabet.len() > 6 {
            for op in ops_of(g) {
                jobs.push((gi, Some(op)));
            }
        } else {
            jobs.push((gi, None));
        }
    }
    let cap = if thorough { 3_000_000 } else { 400_000 };
    let incomplete = std::sync::atomic::AtomicU64::new(0);
    run.par_shards(&format!("GAMES BFS ({} games, chain carried along each path, merged on (moves, stored outcome))", gs.len()), jobs.len(), |ctx, j| {
        let (gi, first) = &jobs[j];
        let game = &gs[*gi];
        match first {
            None => {
                if !bfs(ctx, game, family, cap) {
                    incomplete.fetch_add(1, std::sync::atomic::Ordering::Relaxed);
                }
            }
            Some(op) => {
                // BFS of the sub-game below `op`: same machinery with a shifted root
                let Some(r) = root(game) else { return };
                if j == jobs.iter().position(|x| x.0 == *gi).unwrap() {
                    check_state(ctx, game, &r, family);
                }
                let Some(n) = apply(ctx, game, &r, op, family) else { return };
                if !bfs_from(ctx, game, n, family, cap) {
                    incomplete.fetch_add(1, std::sync::atomic::Ordering::Relaxed);
                }
            }
        }
    });
    if incomplete.load(std::sync::atomic::Ordering::Relaxed) > 0 {
        run.exhaustive = false;
        run.caps.push(format!("GAMES BFS: state cap {} per shard reached in {} shards; below the cap the search is complete to the stated depth", cap, incomplete.load(std::sync::atomic::Ordering::Relaxed)));
    }
    // unmerged words over a small alphabet in G2
    let g2 = gs[1].clone();
    let small: Vec<Op> = vec![Op::Push(0, 0), Op::Push(4, 0), Op::Push(9, 2), Op::Pop, Op::Auto(2), Op::Clear];
    let len = if thorough { 10 } else { 8 };
    run.par_shards(&format!("WORDS: every operation word of length <= {} over {{push g1f3, push g8f6, push illegal, pop, auto(Relaxed), clear}} + returns, no merging", len), small.len() * small.len(), |ctx, j| {
        // shard by the first two operations; the second is applied inside `words` as alphabet[j % n]
        let first = &small[j / small.len()];
        let second = &small[j % small.len()];
        let Some(r) = root(&g2) else { return };
        let Some(n1) = apply(ctx, &g2, &r, first, family) else { return };
        let Some(n2) = apply(ctx, &g2, &n1, second, family) else { return };
        check_state(ctx, &g2, &n2, family);
        words_from(ctx, &g2, &extended(&small), &n2, len - 2, family);
    });
    // CTORS: the other public constructors. (1) root differential on every game start: the complete
    // chain state equals that of MoveChain::new (equal complete states have equal futures);
    // (2) belt and braces: the same operation words from a root built by each constructor
    {
        let gsc = gs.clone();
        run.seq(&format!("CTORS root differential: {} game starts x 5 constructors (from_fen, from_uci_list, clone, new_initial, Default) vs MoveChain::new, complete chain state", gs.len()), move |ctx| {
            for g in &gsc {
                ctor_differential(ctx, g);
            }
        });
        let clen = if thorough { 8 } else { 7 };
        let nc = CTOR_NAMES.len() - 1;
        run.par_shards(&format!("CTORS WORDS: every operation word of length <= {} (G2, same alphabet as WORDS) from a root built by each of 5 other constructors", clen), nc * small.len(), |ctx, j| {
            let ctor = (j / small.len() + 1) as u8;
            let first = &small[j % small.len()];
            CTOR.with(|c| c.set(ctor));
            if let Some(r) = root(&g2) {
                if j % small.len() == 0 {
                    check_state(ctx, &g2, &r, family);
                }
                if let Some(n1) = apply(ctx, &g2, &r, first, family) {
                    check_state(ctx, &g2, &n1, family);
                    words_from(ctx, &g2, &extended(&small), &n1, clen - 1, family);
                }
            }
            CTOR.with(|c| c.set(0));
        });
    }
    // LONG: single deep executions (hundreds of plies) with the same oracle
    let lp = crate::universe::long_params(thorough);
    let lmax = crate::universe::long_max(thorough);
    let stride = if thorough { 5 } else { 4 };
    run.par_shards(&format!("LONG: {} deterministic games of up to {} plies pushed and popped completely, full oracle every {} plies (single deep executions)", lp.len(), lmax, stride), lp.len(), |ctx, i| {
        let (s, a, b) = lp[i];
        long_run(ctx, s, a, b, lmax, stride, family);
    });
    // CAPRET: for every square, a man captured there and everything returning: positions that
    // differ only by the man on that square must not be counted as repetitions
    run.par_shards("CAPRET: 64 capture-and-return games (one per square), full oracle after every ply", 64, |ctx, x| {
        if let Some((game, ops)) = capret_game(x) {
            line_run(ctx, &game, &ops, 1, family);
        }
    });
    if family == 13 {
        equality(run, &gs[1]);
    } else {
        run.seq("OUTCOME TABLE (2 colours x 7 win reasons + 8 draw reasons) x 3 filters", |ctx| outcome_table(ctx));
        // position graphs of shuffle games: distinct identities must not share a hash
        let shuffles: [(&str, &str, &[&str]); 3] = [
            ("castling-rights shuffle", "rn2k2r/8/8/8/8/8/8/RN2K2R w KQkq - 0 1", &["a1a2", "a2a1", "h1g1", "g1h1", "a8a7", "a7a8", "h8g8", "g8h8", "e1e2", "e2e1", "e8e7", "e7e8", "b1c3", "c3b1", "b8c6", "c6b8"]),
            ("en-passant look-alikes", "4k3/3p4/8/4P3/4p3/8/3P4/4K3 w - - 0 1", &["d2d4", "d2d3", "d3d4", "d7d5", "d7d6", "d6d5", "e1f1", "f1e1", "e8f8", "f8e8"]),
            ("side to move look-alikes (triangulation)", "8/8/4k3/8/8/4K3/8/8 w - - 0 1", &["e3d3", "d3d2", "d2e3", "e3e2", "e2e3", "e6d6", "d6e6", "e6e7", "e7e6"]),
        ];
        run.par_shards("HASHCOLL: position graphs of 3 shuffle games (distinct identities vs Zobrist hash, witness game replayed on a chain)", shuffles.len(), |ctx, i| {
            let (name, fen, alpha) = shuffles[i];
            let start = crate::model::text::read_fen(fen).expect("shuffle fen");
            hash_collisions(ctx, name, &start, alpha, 200_000);
        });
        // en-passant look-alikes on every file, for both colours: a pawn that may step once twice
        // or double-step (mark set because an enemy pawn stands beside the target), kings shuffle
        run.par_shards("HASHCOLL: en-passant look-alikes on each of the 8 files x 2 colours", 16, |ctx, i| {
            use crate::model::*;
            let file = (i / 2) as i32;
            let white = i % 2 == 0;
            let nb = if file == 0 { 1 } else { file - 1 };
            let mut p = Pos::empty();
            p.b[sq(4, 0)] = K;
            p.b[sq(4, 7)] = K | BLACK;
            if white {
                p.b[sq(file, 1)] = P;
                p.b[sq(nb, 3)] = P | BLACK;
                p.stm = 0;
            } else {
                p.b[sq(file, 6)] = P | BLACK;
                p.b[sq(nb, 4)] = P;
                p.stm = 1;
            }
            let sqn = crate::model::text::sq_name;
            let (r0, r1, r2) = if white { (1, 2, 3) } else { (6, 5, 4) };
            let alpha: Vec<String> = vec![
                format!("{}{}", sqn(sq(file, r0)), sqn(sq(file, r2))),
                format!("{}{}", sqn(sq(file, r0)), sqn(sq(file, r1))),
                format!("{}{}", sqn(sq(file, r1)), sqn(sq(file, r2))),
                "e1d1".into(), "d1e1".into(), "e8d8".into(), "d8e8".into(), "e1f1".into(), "f1e1".into(), "e8f8".into(), "f8e8".into(),
            ];
            let refs: Vec<&str> = alpha.iter().map(|x| x.as_str()).collect();
            hash_collisions(ctx, "en-passant look-alikes per file", &p, &refs, 50_000);
        });
    }
}

/// the word alphabet plus the return knight moves, so that positions can repeat
fn extended(small: &[Op]) -> Vec<Op> {
    let mut v = small.to_vec();
    v.push(Op::Push(1, 0));
    v.push(Op::Push(5, 0));
    v
}

/// `==` on every pair from a set of chains: equal exactly when start, moves and outcome are equal
fn equality(run: &mut Run, game: &Game) {
    run.seq("EQUALITY: every pair of chains of length <= 3 (G2) x 3 stored outcomes + a different start + every five-ply knight line (transpositions)", |ctx| {
        let Some(r) = root(game) else { return };
        let mut nodes = vec![r];
        let pushes: Vec<Op> = (0..game.alphabet.len()).map(|i| Op::Push(i, 0)).collect();
        let mut level = nodes.clone();
        for _ in 0..3 {
            let mut next = Vec::new();
            for n in &level {
                for op in &pushes {
                    let mut scratch = Ctx::new();
                    if let Some(m) = apply(&mut scratch, game, n, op, 0) {
                        if m.model.moves.len() > n.model.moves.len() {
                            next.push(m);
                        }
                    }
                }
            }
            nodes.extend(next.iter().cloned());
            level = next;
        }
        let mut chains: Vec<(MoveChain, (u8, Vec<crate::model::Mv>, u8))> = Vec::new();
        for n in nodes.iter().take(120) {
            for (oi, out) in [None, Some(foreign_outcome()), Some(owlchess::Outcome::Draw(owlchess::DrawReason::Agreement))].iter().enumerate() {
                let mut c = n.real.clone();
                c.reset_outcome(*out);
                chains.push((c, (0, n.model.moves.clone(), oi as u8)));
            }
        }
        // a chain with the same moves but another start position (different move number)
        if let Some(mut p2) = Some(game.start) {
            p2.fmn = 7;
            if let Some(b2) = crate::bind::board_of(&p2) {
                let mut c = MoveChain::new(b2);
                chains.push((c.clone(), (1, vec![], 0)));
                if let Ok(mv) = owlchess::Move::from_uci("g1f3", c.last()) {
                    if c.push(mv).is_ok() {
                        let m = nodes.iter().find(|n| n.model.moves.len() == 1 && crate::model::text::uci(n.model.moves[0]) == "g1f3").map(|n| n.model.moves.clone()).unwrap_or_default();
                        chains.push((c, (1, m, 0)));
                    }
                }
            }
        }
        // transpositions: every knight-move line of exactly five plies (different orders of the
        // same moves reach the same positions, then a common tail): equal only if the lists are equal
        {
            let knights: Vec<Op> = (0..8.min(game.alphabet.len())).map(|i| Op::Push(i, 0)).collect();
            let mut level = vec![nodes[0].clone()];
            for _ in 0..5 {
                let mut next = Vec::new();
                for n in &level {
                    for op in &knights {
                        let mut scratch = Ctx::new();
                        if let Some(m) = apply(&mut scratch, game, n, op, 0) {
                            if m.model.moves.len() > n.model.moves.len() {
                                next.push(m);
                            }
                        }
                    }
                }
                level = next;
            }
            for n in level.iter() {
                chains.push((n.real.clone(), (0, n.model.moves.clone(), 0)));
            }
        }
        for (a, ka) in &chains {
            for (b, kb) in &chains {
                ctx.states += 1;
                ctx.transitions += 1;
                ctx.add(EQPAIRS, 1);
                if (a == b) != (ka == kb) {
                    ctx.violate(json!({"kind": "chain_eq", "a": format!("{:?}", ka), "b": format!("{:?}", kb)}), format!("chains with (start, moves, outcome) {:?} and {:?} compare equal = {}", ka, kb, a == b));
                }
            }
        }
    });
}

pub fn run13(run: &mut Run) {
    run.assumptions = vec![
        "hooks H1 (combined occupancy) and H3 (repetition table, undo stack) expose the complete chain state, so merged states have identical futures".into(),
        "push on a finished chain is outside the alphabet (asserted precondition); pop on an empty chain is a documented no-op".into(),
    ];
    explore(run, 13);
}

pub fn run14(run: &mut Run) {
    run.assumptions = vec![
        "reference model: occurrences counted on exact position identity (squares, side, rights, mark), so a Zobrist collision inside the explored space would surface as a violation".into(),
        "any applicable reason of the highest applicable tier is accepted".into(),
    ];
    explore(run, 14);
}

pub fn replay13(case: &Value, ctx: &mut Ctx) {
    match case["kind"].as_str() {
        Some("chain") => replay_path(case, ctx, 13),
        Some("chain_eq") => {
            let mut r = Run::new("C13", Tier::Quick);
            equality(&mut r, &games(false)[1]);
            for v in r.total.viol {
                if v.case == *case {
                    ctx.violate(v.case, v.msg);
                }
            }
        }
        _ => {}
    }
}

pub fn replay14(case: &Value, ctx: &mut Ctx) {
    match case["kind"].as_str() {
        Some("chain") => replay_path(case, ctx, 14),
        Some("collision") => replay_collision(case, ctx),
        Some("outcome_table") => {
            let mut c = Ctx::new();
            c.vcap = 1000;
            outcome_table(&mut c);
            for v in c.viol {
                if v.case == *case {
                    ctx.violate(v.case, v.msg);
                }
            }
        }
        _ => {}
    }
}
