//! C02 - the safe API yields only valid positions; a move-like value is accepted iff it is legal

use crate::bind::*;
use crate::engine::*;
use crate::model::text;
use crate::model::*;
use crate::props::c06::all_well_formed;
use crate::props::c10::all_uci;
use crate::props::common::*;
use crate::props::strs;
use owlchess::moves::make::{Make, San, Uci};
use owlchess::moves::{san, uci, unmake_move_unchecked};
use owlchess::{Board, Move, MoveChain, RawBoard};
use serde_json::{json, Value};
use std::sync::OnceLock;

pub const NAMES: &[&str] = &[
    "applications",
    "accepted",
    "refused",
    "move_values",
    "uci_values",
    "uci_strings",
    "san_values",
    "san_strings",
    "chain_pushes",
    "revalidations",
    "at_counter_limit",
    "fen_parsed_positions",
    "model_impl_validity_disagreements",
];
const APPS: usize = 0;
const ACC: usize = 1;
const REF: usize = 2;
const MV: usize = 3;
const UCIV: usize = 4;
const UCIS: usize = 5;
const SANV: usize = 6;
const SANS: usize = 7;
const CHAIN: usize = 8;
const REVAL: usize = 9;
const LIMIT: usize = 10;
const FENP: usize = 11;
const DISAGREE: usize = 12;

fn w_by_src() -> &'static Vec<Vec<Move>> {
    static W: OnceLock<Vec<Vec<Move>>> = OnceLock::new();
    W.get_or_init(|| {
        let mut v = vec![Vec::new(); 64];
        for m in all_well_formed() {
            v[ms(m.src())].push(*m);
        }
        v
    })
}

struct St<'a> {
    p: &'a Pos,
    b: &'a Board,
    f0: Full,
    legal: Vec<Mv>,
    scratch: Board,
    chain: Option<MoveChain>,
}

fn succ_full(p: &Pos, m: Mv) -> Option<Full> {
    let mut q = p.apply(m);
    q.hmc = q.hmc.min(65535);
    q.fmn = q.fmn.min(65535);
    board_of(&q).map(|b| full(&b))
}

/// `what`: entry point name; `text`: how the value is written; `d`: the legal move it denotes
/// (None: it denotes no legal move); `strict`: refusal of a denoting value is a violation
#[allow(clippy::too_many_arguments)]
fn apply_value<M: Make, F: Fn() -> M>(ctx: &mut Ctx, st: &mut St, what: &str, txt: &str, mkv: F, d: Option<Mv>, strict: bool, push_chain: bool)
where
    M::Err: std::fmt::Debug,
{
    let v = mkv();
    let p = st.p;
    let case = || json!({"kind": "pos", "fen": text::fen(p), "what": what, "value": txt});
    ctx.add(APPS, 1);
    ctx.transitions += 1;
    ctx.traces += 1;
    // 1. Make::make on an immutable board
    let r = match guarded(|| v.make(st.b)) {
        Ok(r) => r,
        Err(m) => {
            ctx.violate(case(), format!("{}::make({}) panicked: {}", what, txt, m));
            return;
        }
    };
    match (&r, d) {
        (Ok(nb), Some(m)) => {
            ctx.add(ACC, 1);
            let got = full(nb);
            match succ_full(p, m) {
                Some(want) => {
                    if got != want {
                        ctx.violate(case(), format!("{}::make({}) gives a position that differs from the validated successor by the rules: {}", what, txt, full_diff(&got, &want)));
                    }
                }
                None => ctx.violate(case(), format!("{}::make({}): the successor by the rules is refused by validation", what, txt)),
            }
            ctx.add(REVAL, 1);
            match Board::try_from(*nb.raw()) {
                Ok(again) => {
                    if full(&again) != got {
                        ctx.violate(case(), format!("re-validating the result of {}::make({}) does not reproduce it: {}", what, txt, full_diff(&full(&again), &got)));
                    }
                }
                Err(e) => ctx.violate(case(), format!("the result of {}::make({}) fails re-validation: {}", what, txt, e)),
            }
            if nb.is_opponent_king_attacked() {
                ctx.violate(case(), format!("{}::make({}) leaves the mover in check", what, txt));
            }
        }
        (Ok(nb), None) => {
            ctx.violate(case(), format!("{}::make({}) accepted a value that denotes no legal move (result `{}`)", what, txt, nb.as_fen()));
        }
        (Err(e), Some(m)) => {
            ctx.add(REF, 1);
            if strict {
                ctx.violate(case(), format!("{}::make({}) refused ({:?}) although it denotes the legal move {}", what, txt, e, text::uci(m)));
            }
        }
        (Err(_), None) => ctx.add(REF, 1),
    }
    let accepted = r.is_ok();
    // 2. Make::make_raw on a mutable board: same verdict; refusal leaves it untouched
    let r2 = match guarded(|| v.make_raw(&mut st.scratch)) {
        Ok(r) => r,
        Err(m) => {
            ctx.violate(case(), format!("{}::make_raw({}) panicked: {}", what, txt, m));
            st.scratch = st.b.clone();
            return;
        }
    };
    match r2 {
        Ok((mv, undo)) => {
            if !accepted {
                ctx.violate(case(), format!("{}::make_raw({}) accepts what make refuses", what, txt));
            }
            if let Some(m) = d {
                if let Some(want) = succ_full(p, m) {
                    let got = full(&st.scratch);
                    if got != want {
                        ctx.violate(case(), format!("{}::make_raw({}) leaves a board that differs from the successor: {}", what, txt, full_diff(&got, &want)));
                    }
                }
                if key_of_move(&mv) != key_of_mv(p, m) {
                    ctx.violate(case(), format!("{}::make_raw({}) reports the move {:?}", what, txt, mv));
                }
            }
            unsafe { unmake_move_unchecked(&mut st.scratch, mv, undo) };
        }
        Err(_) => {
            if accepted {
                ctx.violate(case(), format!("{}::make_raw({}) refuses what make accepts", what, txt));
            }
        }
    }
    let f = full(&st.scratch);
    if f != st.f0 {
        ctx.violate(case(), format!("{}::make_raw({}) left the board modified (after refusal or undo): {}", what, txt, full_diff(&f, &st.f0)));
        st.scratch = st.b.clone();
    }
    // 3. MoveChain::push
    if push_chain {
        if let Some(chain) = st.chain.as_mut() {
            ctx.add(CHAIN, 1);
            let r3 = match guarded(|| chain.push(mkv())) {
                Ok(r) => r,
                Err(m) => {
                    ctx.violate(case(), format!("MoveChain::push({} {}) panicked: {}", what, txt, m));
                    st.chain = Some(MoveChain::new(st.b.clone()));
                    return;
                }
            };
            match r3 {
                Ok(()) => {
                    if !accepted {
                        ctx.violate(case(), format!("MoveChain::push({} {}) accepts what make refuses", what, txt));
                    }
                    if let Some(m) = d {
                        if let Some(want) = succ_full(p, m) {
                            if full(chain.last()) != want {
                                ctx.violate(case(), format!("MoveChain::push({} {}) leaves a position that differs from the successor", what, txt));
                            }
                        }
                    }
                    chain.pop();
                }
                Err(_) => {
                    if accepted {
                        ctx.violate(case(), format!("MoveChain::push({} {}) refuses what make accepts", what, txt));
                    }
                }
            }
            if chain.len() != 0 || full(chain.last()) != st.f0 {
                ctx.violate(case(), format!("MoveChain::push({} {}) left the chain modified", what, txt));
                st.chain = Some(MoveChain::new(st.b.clone()));
            }
        }
    }
}

fn denote_uci(legal: &[Mv], f: u8, t: u8, pr: u8) -> Option<Mv> {
    legal.iter().cloned().find(|m| m.from == f && m.to == t && m.promo == pr)
}

/// SAN: the unique legal move agreeing with the text, if the model can read the text.
/// Third component: is a refusal of this (denoting) text a violation? Yes for castling,
/// coordinate and abbreviated pawn-capture texts, and for piece / pawn texts whose capture mark
/// (if any) is consistent with the move; a text that says `x` for a non-capture does not denote
/// the move in standard notation, so its refusal is not judged.
fn denote_san(p: &Pos, legal: &[Mv], t: &str) -> (Option<Mv>, bool, bool) {
    match text::read_san(t) {
        Some(d) => {
            let a: Vec<Mv> = legal.iter().cloned().filter(|&m| text::agrees(p, m, &d)).collect();
            if a.len() == 1 {
                let strict = match d {
                    text::Desc::Castle(_) | text::Desc::Coord(..) | text::Desc::PawnShort { .. } => true,
                    _ => !text::has_capture_mark(t) || p.is_capture(a[0]),
                };
                (Some(a[0]), true, strict)
            } else {
                (None, true, false)
            }
        }
        None => (None, false, false),
    }
}

fn san_text(ctx: &mut Ctx, st: &mut St, t: &str, canonical_of: Option<Mv>, chain: bool) {
    let p = st.p;
    let (d, readable, strict) = denote_san(p, &st.legal.clone(), t);
    if !readable {
        // the model cannot say what the text denotes: legality of an accepted result is C09's
        // business; here only "no panic, refusal leaves the board alone" is exercised, with the
        // implementation's own resolution as the denotation
        let own = guarded(|| Move::from_san(t, st.b)).ok().and_then(|r| r.ok()).map(|mv| mv_of_move(&mv)).filter(|m| st.legal.contains(m));
        ctx.add(SANS, 1);
        apply_value(ctx, st, "San(str)", t, || San(t.to_string()), own, false, chain);
        return;
    }
    if let Some(c) = canonical_of {
        if d != Some(c) {
            // the model's own canonical text must denote its move uniquely
            ctx.violate(json!({"kind": "pos", "fen": text::fen(p), "what": "model SAN self-check", "value": t}), "harness: canonical text does not denote its move in the model".into());
            return;
        }
    }
    ctx.add(SANS, 1);
    apply_value(ctx, st, "San(str)", t, || San(t.to_string()), d, canonical_of.is_some() || strict, chain);
    if let Ok(v) = t.parse::<san::Move>() {
        ctx.add(SANV, 1);
        apply_value(ctx, st, "san::Move", t, || v, d, canonical_of.is_some() || strict, chain);
    }
}

/// level 0: the values derived from every pseudo-legal move (Move, uci::Move, Uci(str); for the
/// legal ones also the canonical SAN text as San(str) and san::Move), the null move and `0000`;
/// level 1: + every well-formed Move value and every UCI string whose source square is occupied
/// (+ those of the lowest empty square), all 320 abbreviated pawn-capture texts;
/// level 2: all 7,781 well-formed Move values, all 20,481 UCI strings, and every value also
/// through MoveChain::push
pub fn check_pos_level(ctx: &mut Ctx, p: &Pos, b: &Board, level: u8) {
    ctx.states += 1;
    if p.hmc >= 65534 || p.fmn >= 65534 {
        ctx.add(LIMIT, 1);
    }
    let legal = p.legal();
    let mut st = St { p, b, f0: full(b), legal: legal.clone(), scratch: b.clone(), chain: if level >= 2 { Some(MoveChain::new(b.clone())) } else { None } };
    let chain = level >= 2;
    // the position itself: obtainable from FEN and from its raw board, identical both ways
    ctx.add(FENP, 1);
    match (Board::from_fen(&text::fen(p)), RawBoard::from_fen(&text::fen(p)).map(Board::try_from)) {
        (Ok(a), Ok(Ok(c))) => {
            if full(&a) != st.f0 || full(&c) != st.f0 {
                ctx.violate(case_pos(p, "from_fen"), "position parsed from FEN differs from the position converted from the raw board".into());
            }
        }
        _ => ctx.violate(case_pos(p, "from_fen"), "a valid position's FEN is refused".into()),
    }
    // values derived from the pseudo-legal moves
    for m in p.pseudo_vec() {
        let Ok(mv) = to_move(p, m) else { continue };
        let d = if legal.contains(&m) { Some(m) } else { None };
        let txt = text::uci(m);
        ctx.add(MV, 1);
        apply_value(ctx, &mut st, "Move", &txt, || mv, d, true, chain);
        ctx.add(UCIV, 1);
        apply_value(ctx, &mut st, "uci::Move", &txt, || mv.uci(), d, true, chain);
        ctx.add(UCIS, 1);
        apply_value(ctx, &mut st, "Uci(str)", &txt, || Uci(txt.clone()), d, true, chain);
        if d.is_some() {
            // Board::make_move is the same entry point as Make::make
            match b.make_move(mv) {
                Ok(nb) => {
                    if Some(full(&nb)) != succ_full(p, m) {
                        ctx.violate(case_pos_mv(p, "Board::make_move", m), "Board::make_move differs from the successor".into());
                    }
                }
                Err(e) => ctx.violate(case_pos_mv(p, "Board::make_move", m), format!("legal move refused: {}", e)),
            }
            let t = text::san(p, &legal, m);
            san_text(ctx, &mut st, &t, Some(m), chain);
        } else {
            // what a player would write for this illegal move (piece letter + destination): the
            // text may denote another, legal, move or nothing
            let t = text::san_naive(p, m);
            san_text(ctx, &mut st, &t, None, chain);
        }
        // the coordinate spelling through the SAN entry points (the SAN reader takes it too)
        san_text(ctx, &mut st, &txt, None, chain);
    }
    // castling candidates that are not even pseudo-legal (no right, blocked path, king attacked
    // or crossing an attacked square) while king and rook stand on their home squares: the
    // nearest of all near misses, in every notation
    {
        let hr = if p.stm == 0 { 0 } else { 7 };
        let ksq = sq(4, hr);
        if p.b[ksq] == mk(p.stm, K) {
            let pseudo = p.pseudo_vec();
            for (to_file, rook_file, flag, san) in [(6, 7, 3u8, "O-O"), (2, 0, 4u8, "O-O-O")] {
                if p.b[sq(rook_file, hr)] != mk(p.stm, R) {
                    continue;
                }
                let m = Mv { from: ksq as u8, to: sq(to_file, hr) as u8, promo: 0, flag };
                if pseudo.iter().any(|x| x.from == m.from && x.to == m.to) {
                    continue;
                }
                let txt = text::uci(m);
                if let Ok(mv) = to_move(p, m) {
                    ctx.add(MV, 1);
                    apply_value(ctx, &mut st, "Move", &txt, || mv, None, true, chain);
                    ctx.add(UCIV, 1);
                    apply_value(ctx, &mut st, "uci::Move", &txt, || mv.uci(), None, true, chain);
                }
                ctx.add(UCIS, 1);
                apply_value(ctx, &mut st, "Uci(str)", &txt, || Uci(txt.clone()), None, true, chain);
                san_text(ctx, &mut st, san, None, chain);
            }
        }
    }
    // the abbreviated text of every pseudo-legal pawn capture (each text once)
    {
        let mut seen = std::collections::HashSet::new();
        for m in p.pseudo_vec() {
            if kind(p.b[m.from as usize]) == P && m.from % 8 != m.to % 8 {
                let t = text::san_short(m);
                if seen.insert(t.clone()) {
                    san_text(ctx, &mut st, &t, None, chain);
                }
            }
        }
    }
    ctx.add(MV, 1);
    apply_value(ctx, &mut st, "Move", "NULL", || Move::NULL, None, true, chain);
    apply_value(ctx, &mut st, "Uci(str)", "0000", || Uci("0000".to_string()), None, true, chain);
    apply_value(ctx, &mut st, "uci::Move", "0000", || uci::Move::Null, None, true, chain);
    if level >= 1 {
        let probe = (0..64usize).find(|&s| p.b[s] == EMPTY);
        // (a) Move values
        let w = w_by_src();
        for s in 0..64usize {
            if level == 1 && p.b[s] == EMPTY && Some(s) != probe {
                continue;
            }
            for mv in &w[s] {
                let k = key_of_move(mv);
                let d = legal.iter().cloned().find(|&m| key_of_mv(p, m) == k);
                ctx.add(MV, 1);
                apply_value(ctx, &mut st, "Move", &format!("{:?}", k), || *mv, d, true, chain);
            }
        }
        // (b) UCI values and strings
        let u = all_uci();
        for s in 0..64usize {
            if level == 1 && p.b[s] == EMPTY && Some(s) != probe {
                continue;
            }
            for i in 0..320 {
                let (txt, f, t, pr) = &u[s * 320 + i];
                let d = denote_uci(&legal, *f, *t, *pr);
                ctx.add(UCIS, 1);
                apply_value(ctx, &mut st, "Uci(str)", txt, || Uci(txt.clone()), d, true, chain);
                if let Ok(v) = txt.parse::<uci::Move>() {
                    ctx.add(UCIV, 1);
                    apply_value(ctx, &mut st, "uci::Move", txt, || v, d, true, chain);
                }
            }
        }
        // (c) all abbreviated pawn-capture texts
        let mut s = String::new();
        for f1 in 0..8u8 {
            for f2 in 0..8u8 {
                for suffix in ["", "=N", "=B", "=R", "=Q"] {
                    s.clear();
                    s.push((b'a' + f1) as char);
                    s.push((b'a' + f2) as char);
                    s.push_str(suffix);
                    let t = s.clone();
                    san_text(ctx, &mut st, &t, None, false);
                }
            }
        }
    }
    if ctx.samples.is_empty() {
        ctx.samples.push(json!({"fen": text::fen(p), "legal": legal.iter().map(|&m| text::uci(m)).collect::<Vec<_>>(), "level": level}));
    }
}

pub fn check_pos(ctx: &mut Ctx, p: &Pos, b: &Board) {
    check_pos_level(ctx, p, b, 0)
}

pub fn check_pos_mid(ctx: &mut Ctx, p: &Pos, b: &Board) {
    check_pos_level(ctx, p, b, 1)
}

pub fn check_pos_full(ctx: &mut Ctx, p: &Pos, b: &Board) {
    check_pos_level(ctx, p, b, 2)
}

/// every string of <= len symbols over SIGMA_SAN applied as San(str) on P30
fn p30_strings(run: &mut Run, maxlen: usize) {
    let p30 = strs::p30();
    let boards: Vec<(Pos, Board)> = p30.iter().filter_map(|p| board_of(p).map(|b| (*p, b))).collect();
    run.par_shards(&format!("P30 x all SAN-alphabet strings of <= {} symbols as San(str)/san::Move", maxlen), boards.len(), |ctx, sh| {
        let (p, b) = &boards[sh];
        let mut st = St { p, b, f0: full(b), legal: p.legal(), scratch: b.clone(), chain: Some(MoveChain::new(b.clone())) };
        let mut s = String::new();
        for len in 1..=maxlen {
            for idx in 0..strs::count(strs::SIGMA_SAN.len(), len) {
                strs::nth(&strs::SIGMA_SAN, len, idx, &mut s);
                set_slot_text(2, &s);
                ctx.states += 1;
                let t = s.clone();
                san_text(ctx, &mut st, &t, None, true);
            }
        }
    });
}

pub fn run(run: &mut Run) {
    run.counter_names = NAMES;
    run.assumptions = vec![
        "reference model refchess: legal set and successor; SAN denotation = the unique legal move agreeing with the model's descriptor reading of the text".into(),
        "hook H1 (combined occupancy) for comparing boards in all fields".into(),
        "for SAN texts that are not canonical, refusal of a uniquely denoting text is not judged (soundness only)".into(),
    ];
    let thorough = run.thorough();
    run.notes.push("level 2 (all 7,781 well-formed Move values, all 20,481 UCI strings, SAN texts, each through make, make_raw and MoveChain::push) on REACH(1 / thorough 2) and P30; level 1 (values with occupied source + one empty probe, abbreviated pawn captures) on REACH(2) [thorough: M3, EP, PROMO, CASTLE, REACH(3)]; level 0 (values derived from every pseudo-legal move, null, 0000) on EP, CASTLE, PROMO, COUNTERS and the deepest REACH tier (M3 in thorough at level 1)".into());
    let l2 = Sel { reach: Some(if thorough { 2 } else { 1 }), ..Default::default() };
    run_universes(run, &l2, DISAGREE, &check_pos_full);
    {
        let p30 = strs::p30();
        run.par_shards("P30 (level 2)", p30.len(), |ctx, sh| visit(ctx, &p30[sh], DISAGREE, &check_pos_full));
    }
    let l1 = if thorough {
        Sel { m3: true, ep: Some(false), castle: Some(false), promo: Some(false), reach: Some(3), ..Default::default() }
    } else {
        Sel { reach: Some(2), reach_take: 11, ..Default::default() }
    };
    run_universes(run, &l1, DISAGREE, &check_pos_mid);
    let l0 = if thorough {
        Sel { ep: Some(true), castle: Some(true), promo: Some(true), reach: Some(4), counters: true, pin2: Some(4), pawncap2: true, promo2: true, clocks: true, multicheck: Some(3), checkpin: Some(3), castle2: true, hemmed: true, counts: true, promorow: true, hist: Some((3, 2)), ..Default::default() }
    } else {
        // quick: the small targeted families first, so that a slow machine's time budget cuts
        // into the large generic ones (REACH(3) last) and never skips a family entirely
        let small = Sel { castle: Some(false), promo: Some(false), counters: true, checkpin: Some(1), castle2: true, hemmed: true, counts: true, ..Default::default() };
        run_universes(run, &small, DISAGREE, &check_pos);
        Sel { ep: Some(false), ep_spread_only: true, pin2: Some(2), pawncap2: true, pawncap2_light: true, reach: Some(3), reach_take: 11, ..Default::default() }
    };
    run_universes(run, &l0, DISAGREE, &check_pos);
    p30_strings(run, if thorough { 4 } else { 3 });
}

pub fn replay(case: &Value, ctx: &mut Ctx) {
    if case["kind"].as_str() == Some("str") {
        // crash case: a text that was being applied on one of the P30 positions
        let bytes: Vec<u8> = case["text_bytes"].as_array().map(|a| a.iter().filter_map(|x| x.as_u64().map(|b| b as u8)).collect()).unwrap_or_default();
        let Ok(t) = String::from_utf8(bytes) else { return };
        for p in strs::p30() {
            let Some(b) = board_of(&p) else { continue };
            let mut st = St { p: &p, b: &b, f0: full(&b), legal: p.legal(), scratch: b.clone(), chain: Some(MoveChain::new(b.clone())) };
            san_text(ctx, &mut st, &t, None, true);
        }
        return;
    }
    replay_pos(case, ctx, &check_pos_full);
}
