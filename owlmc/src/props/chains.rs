//! Explicit-state exploration of move chains (C13, C14): breadth-first search over chain states
//! with the real MoveChain carried along each path, compared in full after every operation with
//! (a) a fresh chain that replays the accepted moves, (b) the model chain, and (c) - when a state
//! is reached again by a different history - the real chain of the first history.

use crate::bind::*;
use crate::engine::*;
use crate::model::chain::MChain;
use crate::model::text;
use crate::model::*;
use owlchess::chain::HashRepeat;
use owlchess::moves::make::{San, Uci};
use owlchess::moves::uci;
use owlchess::types::OutcomeFilter;
use owlchess::{Board, DrawReason, Move, MoveChain, Outcome, RawBoard, WinReason};
use serde_json::{json, Value};
use std::collections::HashMap;

pub const NAMES: &[&str] = &[
    "chain_states",
    "operations",
    "pushes_accepted",
    "pushes_refused",
    "pops",
    "pops_on_empty",
    "auto_outcome_calls",
    "auto_outcome_stored",
    "revisits_compared",
    "max_chain_length",
    "calc_none",
    "calc_claimable",
    "calc_mandatory",
    "calc_forced",
    "repeat3_states",
    "repeat5_states",
    "max_occurrences",
    "equality_pairs",
    "unmerged_words",
    "outcome_table_entries",
];
pub const STATES: usize = 0;
pub const OPS: usize = 1;
pub const PACC: usize = 2;
pub const PREF: usize = 3;
pub const POPS: usize = 4;
pub const POPEMPTY: usize = 5;
pub const AUTO: usize = 6;
pub const AUTOSTORED: usize = 7;
pub const REVISIT: usize = 8;
pub const MAXLEN: usize = 9;
pub const CALC0: usize = 10;
pub const REP3: usize = 14;
pub const REP5: usize = 15;
pub const MAXOCC: usize = 16;
pub const EQPAIRS: usize = 17;
pub const WORDS: usize = 18;
pub const OTABLE: usize = 19;
pub const MAX_IDX: &[usize] = &[MAXLEN, MAXOCC];

#[derive(Clone, Debug, PartialEq, Eq, Hash)]
pub enum Op {
    /// push alphabet move `idx` in flavour 0 Move, 1 uci::Move, 2 Uci(str), 3 San(str),
    /// 4 San(coordinate text)
    Push(usize, u8),
    /// push a garbage token as Uci(str) (0) or San(str) (1)
    Garbage(usize, u8),
    /// push_uci_list of two alphabet moves
    List(usize, usize),
    Pop,
    Auto(u8),
    Clear,
    /// reset_outcome to a fixed foreign outcome (a resignation) or to None
    Reset(bool),
}

pub const GARBAGE: [&str; 4] = ["zz", "e2e", "\u{e9}2e4", ""];

#[derive(Clone)]
pub struct Game {
    pub name: &'static str,
    pub start: Pos,
    pub alphabet: Vec<String>,
    pub depth: usize,
    pub flavours: bool,
    pub lists: bool,
    pub outcome_ops: bool,
}

fn g(name: &'static str, fen: &str, alphabet: &[&str], depth: usize, flavours: bool, lists: bool, outcome_ops: bool) -> Game {
    Game { name, start: text::read_fen(fen).expect("game fen"), alphabet: alphabet.iter().map(|s| s.to_string()).collect(), depth, flavours, lists, outcome_ops }
}

pub fn games(thorough: bool) -> Vec<Game> {
    let d = |q: usize, t: usize| if thorough { t } else { q };
    let init = "rnbqkbnr/pppppppp/8/8/8/8/PPPPPPPP/RNBQKBNR w KQkq - 0 1";
    vec![
        // G1: one knight each - linear, crosses threefold (ply 8) and fivefold (ply 16)
        g("G1 one knight each (deep line)", init, &["g1f3", "f3g1", "g8f6", "f6g8"], d(20, 22), false, false, true),
        // G2: two knights each, a pawn move, an illegal move, garbage, all flavours
        g("G2 knights + pawn + illegal + garbage", init, &["g1f3", "f3g1", "b1c3", "c3b1", "g8f6", "f6g8", "b8c6", "c6b8", "e2e4", "e2e5", "e1e2"], d(6, 7), true, true, true),
        // G3: K+R v K, every legal move - castling-right loss makes look-alikes differ
        g("G3 K+R v K, look-alikes by castling right", "4k3/8/8/8/8/8/8/R3K3 w Q - 0 1", &["a1a2", "a2a1", "a1b1", "b1a1", "e1d1", "d1e1", "e1c1", "e8d8", "d8e8", "e8e7", "e7e8"], d(7, 8), false, false, true),
        // G4: double push / en-passant look-alikes
        g("G4 en-passant look-alikes", "4k3/8/8/8/3p4/8/4P3/4K3 w - - 0 1", &["e2e4", "e2e3", "e3e4", "d4e3", "d4d3", "e1d1", "d1e1", "e8d8", "d8e8"], d(7, 8), false, false, true),
        // G5: clocks just below the 50- and 75-move thresholds
        g("G5a clock 98", "4k3/8/8/8/8/8/8/4K2R w - - 98 60", &["h1h2", "h2h1", "e8d8", "d8e8", "e1d1", "d1e1"], d(7, 8), false, false, true),
        g("G5b clock 148", "4k3/8/8/8/8/8/8/4K2R b - - 148 90", &["h1h2", "h2h1", "e8d8", "d8e8", "e1d1", "d1e1"], d(7, 8), false, false, true),
        // G8: deep repetition lines with the clock near the thresholds, so that repetition draws
        // and move-count draws of different tiers apply at the same time
        g("G8a one knight each, clock 90 (fivefold + 50 moves)", "rnbqkbnr/pppppppp/8/8/8/8/PPPPPPPP/RNBQKBNR w KQkq - 90 46", &["g1f3", "f3g1", "g8f6", "f6g8"], d(18, 20), false, false, true),
        g("G8b one knight each, clock 140 (threefold + 75 moves)", "rnbqkbnr/pppppppp/8/8/8/8/PPPPPPPP/RNBQKBNR b KQkq - 140 71", &["g1f3", "f3g1", "g8f6", "f6g8"], d(18, 20), false, false, true),
        // G9: every special move kind: castling both sides and colours, promotions and
        // capture-promotions that take a rook on its home square (castling rights lost by capture)
        g("G9 castling + promotions capturing home rooks", "r3k2r/1P4P1/8/8/8/8/1p4p1/R3K2R w KQkq - 0 1", &["b7a8q", "g7h8n", "b7b8r", "e1g1", "e1c1", "e8g8", "e8c8", "b2a1q", "g2h1n", "e8d7", "e1d2"], d(5, 6), false, false, true),
        // G10: all four castling rights lost step by step while the same squares recur: the
        // positions look alike and differ only in rights
        g("G10 kings and rooks shuffle, rights KQkq -> -", "r3k2r/8/8/8/8/8/8/R3K2R w KQkq - 0 1", &["e1e2", "e2e1", "e8e7", "e7e8", "a1b1", "b1a1"], d(10, 12), false, false, false),
        // G11: two simultaneous pins; illegal moves of pinned men pushed in every notation
        g("G11 double pin, pinned men pushed as SAN", "3r2k1/p7/8/8/3R4/8/P7/3K1N1r w - - 0 40", &["d4b4", "f1e3", "d4d5", "a2a3", "a7a6", "d1c2", "g8g7"], d(4, 5), true, false, false),
        g("G11b diagonal + diagonal pin", "4k3/8/8/b7/7b/8/3N1N2/4K3 w - - 0 1", &["d2b3", "f2e4", "d2e4", "e1f1", "e1d1", "e8e7", "a5d2"], d(4, 5), true, false, false),
        // G5c: counters far beyond the thresholds (values that do not fit a byte)
        g("G5c clock 300, move number 40000", "4r1k1/5ppp/8/8/8/8/4RPPP/4K3 w - - 300 40000", &["e2d2", "e2e3", "e3e2", "e8e7", "e7e8", "g8h8", "h8g8", "e1d1", "d1e1"], d(6, 7), true, false, true),
        // G6: K v K (insufficient material, with repetitions)
        g("G6 K v K", "4k3/8/8/8/8/8/8/4K3 w - - 0 1", &["e1d1", "d1e1", "e8d8", "d8e8", "e1e2", "e2e1"], d(9, 10), false, false, true),
        // G7: lines into mate and stalemate
        g("G7a into mate / stalemate", "7k/8/5K2/8/8/8/8/6Q1 w - - 0 1", &["g1g7", "g1g6", "g1a1", "a1g1", "h8h7", "h7h8", "f6f7"], d(6, 7), true, false, true),
        g("G7b black mates", "8/8/8/8/8/5k2/q7/7K b - - 0 1", &["a2g2", "a2a1", "a1a2", "h1h2", "h2h1", "f3f2"], d(5, 6), false, false, true),
    ]
}

/// everything observable about a real chain (hooks H1 and H3 for the hidden parts)
#[derive(Clone, PartialEq, Eq, Debug)]
pub struct Obs {
    pub start: RawBoard,
    pub last: Full,
    pub moves: Vec<MKey>,
    pub outcome: Option<Outcome>,
    pub counts: Vec<(u64, usize)>,
    pub undo: Vec<String>,
}

pub fn obs(c: &MoveChain) -> Obs {
    let (rep, stack): (&HashRepeat, _) = c.verif_parts();
    Obs {
        start: *c.startpos(),
        last: full(c.last()),
        moves: c.iter().map(|m| key_of_move(&m)).collect(),
        outcome: *c.outcome(),
        counts: rep.verif_counts(),
        undo: stack.iter().map(|(m, u)| format!("{:?} {:?}", m, u)).collect(),
    }
}

pub fn obs_diff(a: &Obs, b: &Obs) -> String {
    let mut d = Vec::new();
    if a.start != b.start {
        d.push("start position".to_string());
    }
    if a.last != b.last {
        d.push(format!("current position: {}", full_diff(&a.last, &b.last)));
    }
    if a.moves != b.moves {
        d.push(format!("move list {:?} vs {:?}", a.moves, b.moves));
    }
    if a.outcome != b.outcome {
        d.push(format!("stored outcome {:?} vs {:?}", a.outcome, b.outcome));
    }
    if a.counts != b.counts {
        d.push(format!("repetition table {:?} vs {:?}", a.counts, b.counts));
    }
    if a.undo != b.undo {
        d.push("undo records".to_string());
    }
    d.join("; ")
}

pub fn foreign_outcome() -> Outcome {
    Outcome::Win { side: owlchess::Color::White, reason: WinReason::Resign }
}

fn mkey_moves(c: &MChain) -> Vec<MKey> {
    c.moves.iter().zip(&c.positions).map(|(m, p)| key_of_mv(p, *m)).collect()
}

/// model-side stored outcome: Some(Ok(model outcome)) | Some(Err(())) for the foreign one | None
#[derive(Clone, Copy, PartialEq, Eq, Hash, Debug)]
pub enum Stored {
    None,
    Model(MOut),
    Foreign,
}

#[derive(Clone)]
pub struct Node {
    pub real: MoveChain,
    pub model: MChain,
    pub stored: Stored,
    pub path: Vec<Op>,
}

pub fn op_json(o: &Op) -> Value {
    json!(format!("{:?}", o))
}

thread_local! {
    /// which public constructor `root` uses (0 = MoveChain::new); set per shard, recorded in every case
    pub static CTOR: std::cell::Cell<u8> = const { std::cell::Cell::new(0) };
}
pub const CTOR_NAMES: [&str; 6] = ["new", "from_fen(as_fen)", "from_uci_list(b, \"\")", "new + clone", "new_initial (initial start only)", "Default::default (initial start only)"];

/// the chain for start position `b`, built by the selected public constructor; constructors that
/// exist only for the initial position fall back to `new` on other starts
pub fn make_chain(b: Board, ctor: u8) -> Option<MoveChain> {
    let initial = b == Board::initial();
    Some(match ctor {
        1 => MoveChain::from_fen(&b.as_fen()).ok()?,
        2 => MoveChain::from_uci_list(b, "").ok()?,
        3 => {
            let c = MoveChain::new(b);
            let d = c.clone();
            drop(c);
            d
        }
        4 if initial => MoveChain::new_initial(),
        5 if initial => MoveChain::default(),
        _ => MoveChain::new(b),
    })
}

pub fn case_of(game: &Game, path: &[Op]) -> Value {
    let ctor = CTOR.with(|c| c.get());
    if ctor == 0 {
        json!({"kind": "chain", "game": game.name, "path": path.iter().map(op_json).collect::<Vec<_>>()})
    } else {
        json!({"kind": "chain", "game": game.name, "ctor": ctor, "path": path.iter().map(op_json).collect::<Vec<_>>()})
    }
}

fn resolve(model: &MChain, uci_text: &str) -> (Option<Mv>, Option<Mv>) {
    // (legal move, pseudo-legal move) with that coordinate text in the current position
    let cur = model.cur();
    let Some((f, t, pr)) = text::parse_uci(uci_text) else { return (None, None) };
    let ps = cur.pseudo_vec().into_iter().find(|m| m.from == f && m.to == t && m.promo == pr);
    let lg = ps.filter(|m| cur.is_legal(*m));
    (lg, ps)
}

/// Apply `op` to the node (real chain in place + model). Returns false if the operation is not
/// in the alphabet of this state (e.g. push on a finished chain). `family`: 13 or 14 selects
/// which property's oracle is evaluated on top of the shared bookkeeping.
pub fn apply(ctx: &mut Ctx, game: &Game, parent: &Node, op: &Op, family: u8) -> Option<Node> {
    let mut n = parent.clone();
    if apply_in_place(ctx, game, &mut n, parent, op, family) {
        Some(n)
    } else {
        None
    }
}

fn apply_in_place(ctx: &mut Ctx, game: &Game, node: &mut Node, parent: &Node, op: &Op, family: u8) -> bool {
    let finished = node.real.is_finished();
    let case = |node: &Node| {
        let mut p = node.path.clone();
        p.push(op.clone());
        case_of(game, &p)
    };
    match op {
        Op::Push(..) | Op::Garbage(..) | Op::List(..) if finished => return false,
        Op::Auto(_) if finished => return false,
        _ => {}
    }
    // the state before the operation is the parent's chain (computed lazily: only refusals need it)
    let before_obs = || obs(&parent.real);
    ctx.add(OPS, 1);
    ctx.transitions += 1;
    ctx.traces += 1;
    match op {
        Op::Push(idx, flavour) => {
            let t = &game.alphabet[*idx];
            let (legal, pseudo) = resolve(&node.model, t);
            let board = node.real.last().clone();
            let r: Result<(), String> = match flavour {
                0 => match Move::from_uci(t, &board) {
                    Ok(mv) => node.real.push(mv).map_err(|e| e.to_string()),
                    Err(_) => match t.parse::<uci::Move>() {
                        Ok(u) => node.real.push(u).map_err(|e| e.to_string()),
                        Err(e) => Err(e.to_string()),
                    },
                },
                1 => match t.parse::<uci::Move>() {
                    Ok(u) => node.real.push(u).map_err(|e| e.to_string()),
                    Err(e) => Err(e.to_string()),
                },
                2 => node.real.push(Uci(t.as_str())).map_err(|e| e.to_string()),
                // the coordinate text through the SAN entry point (the SAN reader takes it too)
                4 => node.real.push(San(t.as_str())).map_err(|e| e.to_string()),
                _ => {
                    // legal: the canonical text; pseudo-legal but illegal: what a player would
                    // write (piece letter + destination); otherwise the coordinate text
                    let san = match (legal, pseudo) {
                        (Some(m), _) => text::san(node.model.cur(), &node.model.cur().legal(), m),
                        (None, Some(m)) => text::san_naive(node.model.cur(), m),
                        _ => t.clone(),
                    };
                    node.real.push(San(san)).map_err(|e| e.to_string())
                }
            };
            match (r.is_ok(), legal) {
                (true, Some(m)) => {
                    ctx.add(PACC, 1);
                    node.model.push(m);
                }
                (false, None) => {
                    ctx.add(PREF, 1);
                    if family == 13 && obs(&node.real) != before_obs() {
                        ctx.violate(case(node), format!("a refused push changed the chain: {}", obs_diff(&obs(&node.real), &before_obs())));
                    }
                }
                (true, None) => {
                    if family == 13 {
                        ctx.violate(case(node), format!("push of `{}` (flavour {}) accepted although it is not legal", t, flavour));
                    }
                    return false;
                }
                (false, Some(_)) => {
                    if family == 13 {
                        ctx.violate(case(node), format!("push of the legal move `{}` (flavour {}) refused: {:?}", t, flavour, r));
                    }
                    return false;
                }
            }
        }
        Op::Garbage(idx, flavour) => {
            let t = GARBAGE[*idx];
            let r = if *flavour == 0 { node.real.push(Uci(t)).is_ok() } else { node.real.push(San(t)).is_ok() };
            ctx.add(PREF, 1);
            if family == 13 && (r || obs(&node.real) != before_obs()) {
                ctx.violate(case(node), format!("garbage token {:?} accepted or changed the chain", t));
            }
        }
        Op::List(a, b) => {
            let (ta, tb) = (&game.alphabet[*a], &game.alphabet[*b]);
            let list = format!("{} {}", ta, tb);
            let r = node.real.push_uci_list(&list);
            // model: apply as far as legal
            let mut applied = 0;
            let (la, _) = resolve(&node.model, ta);
            if let Some(m) = la {
                node.model.push(m);
                applied = 1;
                let (lb, _) = resolve(&node.model, tb);
                if let Some(m2) = lb {
                    node.model.push(m2);
                    applied = 2;
                }
            }
            ctx.add(PACC, applied as u64);
            if family == 13 {
                match r {
                    Ok(()) => {
                        if applied != 2 {
                            ctx.violate(case(node), format!("push_uci_list(`{}`) accepted but only {} of its moves are legal", list, applied));
                        }
                    }
                    Err(e) => {
                        if applied == 2 || e.pos != applied {
                            ctx.violate(case(node), format!("push_uci_list(`{}`) failed at token {} but {} moves are legal", list, e.pos, applied));
                        }
                    }
                }
            }
        }
        Op::Pop => {
            ctx.add(POPS, 1);
            let r = node.real.pop();
            let m = node.model.pop();
            if m.is_none() {
                ctx.add(POPEMPTY, 1);
                // documented: pop on an empty chain returns None and changes nothing
                if family == 13 && (r.is_some() || obs(&node.real) != before_obs()) {
                    ctx.violate(case(node), "pop on an empty chain returned a move or changed the chain".into());
                }
            } else {
                node.stored = Stored::None;
                if family == 13 {
                    let want = parent.real.iter().last().map(|mv| key_of_move(&mv));
                    if r.map(|mv| key_of_move(&mv)) != want {
                        ctx.violate(case(node), "pop did not return the latest accepted move".into());
                    }
                    if node.real.outcome().is_some() {
                        ctx.violate(case(node), "pop did not clear the stored outcome".into());
                    }
                }
            }
        }
        Op::Auto(f) => {
            ctx.add(AUTO, 1);
            let allowed = node.model.auto(*f);
            let ret = node.real.set_auto_outcome(ofilter(*f));
            let stored = *node.real.outcome();
            if family == 14 {
                if ret != stored {
                    ctx.violate(case(node), format!("set_auto_outcome returned {:?} but stored {:?}", ret, stored));
                }
                match stored {
                    None => {
                        if !allowed.is_empty() {
                            ctx.violate(case(node), format!("set_auto_outcome({:?}) stored nothing although {:?} applies and passes the filter", ofilter(*f), allowed));
                        }
                    }
                    Some(o) => match mout_of(&o) {
                        Some(mo) if allowed.contains(&mo) => {}
                        _ => ctx.violate(case(node), format!("set_auto_outcome({:?}) stored {:?}; outcomes that apply and pass the filter: {:?}", ofilter(*f), o, allowed)),
                    },
                }
            }
            node.stored = match stored.and_then(|o| mout_of(&o)) {
                Some(mo) => {
                    ctx.add(AUTOSTORED, 1);
                    Stored::Model(mo)
                }
                None => {
                    if stored.is_some() {
                        Stored::Foreign
                    } else {
                        Stored::None
                    }
                }
            };
        }
        Op::Clear => {
            node.real.clear_outcome();
            node.stored = Stored::None;
        }
        Op::Reset(some) => {
            if *some {
                // both public setters: set_outcome is defined only on an unfinished chain
                if !node.real.is_finished() && node.path.len() % 2 == 0 {
                    node.real.set_outcome(foreign_outcome());
                } else {
                    node.real.reset_outcome(Some(foreign_outcome()));
                }
                node.stored = Stored::Foreign;
            } else {
                node.real.reset_outcome(None);
                node.stored = Stored::None;
            }
        }
    }
    node.path.push(op.clone());
    true
}

/// the full oracle in one chain state
pub fn check_state(ctx: &mut Ctx, game: &Game, node: &Node, family: u8) {
    ctx.add(STATES, 1);
    ctx.states += 1;
    ctx.max(MAXLEN, node.model.moves.len() as u64);
    let case = || case_of(game, &node.path);
    let real = &node.real;
    let o = obs(real);
    let model = &node.model;
    if family == 13 {
        // (b) the model chain
        if o.moves != mkey_moves(model) {
            ctx.violate(case(), format!("recorded move list {:?} differs from the accepted moves {:?}", o.moves, mkey_moves(model)));
        }
        if real.len() != model.moves.len() || real.is_empty() != model.moves.is_empty() {
            ctx.violate(case(), "len / is_empty disagree with the number of accepted moves".into());
        }
        for i in 0..real.len() {
            if key_of_move(&real.get(i)) != o.moves[i] {
                ctx.violate(case(), "get(i) differs from iter()".into());
            }
        }
        let mut cur = *model.cur();
        cur.hmc = cur.hmc.min(65535);
        cur.fmn = cur.fmn.min(65535);
        match board_of(&cur) {
            Some(b) => {
                if full(&b) != o.last {
                    ctx.violate(case(), format!("current position differs from the replay of the accepted moves by the rules: {}", full_diff(&o.last, &full(&b))));
                }
            }
            None => ctx.violate(case(), "model position of the chain is not accepted by validation".into()),
        }
        if o.start != to_raw(&game.start) {
            ctx.violate(case(), "recorded start position changed".into());
        }
        let want_out = match node.stored {
            Stored::None => None,
            Stored::Model(m) => Some(outcome_of(m)),
            Stored::Foreign => Some(foreign_outcome()),
        };
        if o.outcome != want_out || real.is_finished() != want_out.is_some() {
            ctx.violate(case(), format!("stored outcome {:?}, expected {:?}", o.outcome, want_out));
        }
        // (a) a fresh chain replaying the accepted moves
        if let Some(start) = board_of(&game.start) {
            let mut fresh = MoveChain::new(start);
            for (m, p) in model.moves.iter().zip(&model.positions) {
                match to_move(p, *m) {
                    Ok(mv) => {
                        if fresh.push(mv).is_err() {
                            ctx.violate(case(), "fresh replay refuses an accepted move".into());
                        }
                    }
                    Err(e) => ctx.violate(case(), e),
                }
            }
            fresh.reset_outcome(want_out);
            let fo = obs(&fresh);
            if fo != o {
                ctx.violate(case(), format!("chain differs from a fresh chain replaying its accepted moves: {}", obs_diff(&o, &fo)));
            }
            if !(fresh == *real && *real == fresh) {
                ctx.violate(case(), "chain does not compare equal to a fresh chain with the same start, moves and outcome".into());
            }
        }
        // repetition table = multiset of exact position identities
        let mut counts: Vec<usize> = o.counts.iter().map(|c| c.1).collect();
        counts.sort();
        if counts != model.ident_counts() {
            ctx.violate(case(), format!("repetition table has counts {:?} but the game history has {:?}", counts, model.ident_counts()));
        }
    }
    // C14: calculated outcome
    let (tier, reasons) = model.calc();
    ctx.add(CALC0 + tier as usize, 1);
    let occ = model.occurrences();
    ctx.max(MAXOCC, occ as u64);
    if occ >= 5 {
        ctx.add(REP5, 1);
    } else if occ >= 3 {
        ctx.add(REP3, 1);
    }
    if family == 14 {
        let got = real.calc_outcome();
        let ok = match got {
            None => tier == 0,
            Some(out) => match mout_of(&out) {
                Some(mo) => mo.tier() == tier && reasons.contains(&mo),
                None => false,
            },
        };
        if !ok {
            ctx.violate(case(), format!("calc_outcome = {:?} but the history gives tier {} with applicable reasons {:?} (current position occurred {} times)", got, tier, reasons, occ));
        }
        // occurrence counts through the hook equal the model's
        let cnt = real.verif_parts().0.verif_counts();
        let mine = cnt.iter().find(|(h, _)| *h == real.last().zobrist_hash()).map(|c| c.1).unwrap_or(0);
        if mine != occ {
            ctx.violate(case(), format!("occurrence count of the current position is {} but it occurred {} times", mine, occ));
        }
    }
    if ctx.samples.len() < 2 && node.path.len() >= 4 {
        ctx.samples.push(json!({"game": game.name, "operations": node.path.iter().map(op_json).collect::<Vec<_>>(), "moves": model.moves.iter().map(|m| text::uci(*m)).collect::<Vec<_>>(), "calc_outcome": format!("{:?}", real.calc_outcome())}));
    }
}

pub fn ops_of(game: &Game) -> Vec<Op> {
    let mut v = Vec::new();
    for i in 0..game.alphabet.len() {
        v.push(Op::Push(i, 0));
        if game.flavours {
            for f in 1..5 {
                v.push(Op::Push(i, f));
            }
        }
    }
    if game.flavours {
        for i in 0..GARBAGE.len() {
            v.push(Op::Garbage(i, 0));
            v.push(Op::Garbage(i, 1));
        }
    }
    if game.lists {
        for a in 0..game.alphabet.len().min(4) {
            for b in 4..game.alphabet.len().min(8) {
                v.push(Op::List(a, b));
            }
        }
    }
    v.push(Op::Pop);
    if game.outcome_ops {
        for f in 0..3 {
            v.push(Op::Auto(f));
        }
        v.push(Op::Clear);
        v.push(Op::Reset(true));
    }
    v
}

pub fn root(game: &Game) -> Option<Node> {
    let b = board_of(&game.start)?;
    let real = make_chain(b, CTOR.with(|c| c.get()))?;
    Some(Node { real, model: MChain::new(game.start), stored: Stored::None, path: Vec::new() })
}

/// every public constructor gives, for the same start position, the same complete chain state
/// (start, position, move list, outcome, repetition table, undo stack) as `MoveChain::new`
pub fn ctor_differential(ctx: &mut Ctx, game: &Game) {
    let Some(b) = board_of(&game.start) else { return };
    let base = obs(&MoveChain::new(b.clone()));
    for ctor in 1..CTOR_NAMES.len() as u8 {
        ctx.states += 1;
        ctx.transitions += 1;
        match make_chain(b.clone(), ctor) {
            Some(c) => {
                let o = obs(&c);
                if o != base {
                    ctx.violate(json!({"kind": "chain", "game": game.name, "ctor": ctor, "path": []}), format!("chain built by {} differs from MoveChain::new on the same start: {}", CTOR_NAMES[ctor as usize], obs_diff(&o, &base)));
                }
            }
            None => ctx.violate(json!({"kind": "chain", "game": game.name, "ctor": ctor, "path": []}), format!("constructor {} refuses a valid start position", CTOR_NAMES[ctor as usize])),
        }
    }
}

/// BFS over chain states; key = (accepted moves, stored outcome)
pub fn bfs(ctx: &mut Ctx, game: &Game, family: u8, max_states: usize) -> bool {
    let Some(r) = root(game) else {
        ctx.violate(json!({"kind": "chain", "game": game.name, "path": []}), "start position refused".into());
        return true;
    };
    bfs_from(ctx, game, r, family, max_states)
}

pub fn bfs_from(ctx: &mut Ctx, game: &Game, r: Node, family: u8, max_states: usize) -> bool {
    let ops = ops_of(game);
    let done = r.path.len();
    let mut seen: HashMap<(Vec<Mv>, Stored), Obs> = HashMap::new();
    check_state(ctx, game, &r, family);
    seen.insert((r.model.moves.clone(), r.stored), obs(&r.real));
    let mut frontier = vec![r];
    let mut complete = true;
    for _depth in done..game.depth {
        let mut next = Vec::new();
        for node in &frontier {
            for op in &ops {
                let nv = ctx.nviol;
                let Some(n) = apply(ctx, game, node, op, family) else { continue };
                if ctx.nviol > nv {
                    continue; // do not explore past a violating transition
                }
                let key = (n.model.moves.clone(), n.stored);
                match seen.get(&key) {
                    Some(first) => {
                        // differential oracle: the same state reached by another history
                        ctx.add(REVISIT, 1);
                        if family == 13 {
                            let o = obs(&n.real);
                            if o != *first {
                                ctx.violate(case_of(game, &n.path), format!("the same chain state reached by two histories differs: {}", obs_diff(&o, first)));
                            }
                        }
                    }
                    None => {
                        check_state(ctx, game, &n, family);
                        seen.insert(key, obs(&n.real));
                        if seen.len() >= max_states {
                            complete = false;
                        } else {
                            next.push(n);
                        }
                    }
                }
            }
        }
        frontier = next;
        if frontier.is_empty() {
            break;
        }
    }
    complete
}

/// LONG game: the deterministic deep line (seed, a, b) of universe.rs as a game whose alphabet is
/// the distinct coordinate texts of the line; returns the game and the push operations of the line
pub fn long_game(seed: usize, a: usize, b: usize, max: usize) -> (Game, Vec<Op>) {
    let seeds = crate::universe::seeds();
    let start = seeds[seed % seeds.len()];
    let line = crate::universe::long_line(&start, a, b, max);
    let mut alphabet: Vec<String> = Vec::new();
    let mut ops = Vec::new();
    for m in &line {
        let t = text::uci(*m);
        let idx = match alphabet.iter().position(|x| *x == t) {
            Some(i) => i,
            None => {
                alphabet.push(t);
                alphabet.len() - 1
            }
        };
        ops.push(Op::Push(idx, 0));
    }
    let name: &'static str = Box::leak(format!("LONG seed={} a={} b={} max={}", seed, a, b, max).into_boxed_str());
    (Game { name, start, alphabet, depth: max, flavours: false, lists: false, outcome_ops: true }, ops)
}

/// CAPRET game for square x (universe.rs): alphabet = the distinct texts of the line
pub fn capret_game(x: usize) -> Option<(Game, Vec<Op>)> {
    let (start, line) = crate::universe::capture_return_line(x)?;
    let mut alphabet: Vec<String> = Vec::new();
    let mut ops = Vec::new();
    for m in &line {
        let t = text::uci(*m);
        let idx = match alphabet.iter().position(|a| *a == t) {
            Some(i) => i,
            None => {
                alphabet.push(t);
                alphabet.len() - 1
            }
        };
        ops.push(Op::Push(idx, 0));
    }
    let name: &'static str = Box::leak(format!("CAPRET sq={}", x).into_boxed_str());
    Some((Game { name, start, alphabet, depth: line.len(), flavours: false, lists: false, outcome_ops: true }, ops))
}

fn long_game_by_name(name: &str) -> Option<Game> {
    if let Some(rest) = name.strip_prefix("CAPRET sq=") {
        return capret_game(rest.parse().ok()?).map(|g| g.0);
    }
    let rest = name.strip_prefix("LONG ")?;
    let nums: Vec<usize> = rest.split(|c: char| !c.is_ascii_digit()).filter(|x| !x.is_empty()).filter_map(|x| x.parse().ok()).collect();
    if nums.len() != 4 {
        return None;
    }
    Some(long_game(nums[0], nums[1], nums[2], nums[3]).0)
}

/// one deep execution of a LONG game: push the whole line with the full oracle after every
/// `stride`-th ply (and after the last), probe the automatic outcome at those points on a copy,
/// then pop everything, again with the full oracle
pub fn long_run(ctx: &mut Ctx, seed: usize, a: usize, b: usize, max: usize, stride: usize, family: u8) -> usize {
    let (game, ops) = long_game(seed, a, b, max);
    line_run(ctx, &game, &ops, stride, family)
}

pub fn line_run(ctx: &mut Ctx, game: &Game, ops: &[Op], stride: usize, family: u8) -> usize {
    let game = game.clone();
    let ops = ops.to_vec();
    let Some(mut node) = root(&game) else { return 0 };
    check_state(ctx, &game, &node, family);
    let n = ops.len();
    for (i, op) in ops.iter().enumerate() {
        let nv = ctx.nviol;
        let parent = node.clone();
        if !apply_in_place(ctx, &game, &mut node, &parent, op, family) || ctx.nviol > nv {
            return i;
        }
        if (i + 1) % stride == 0 || i + 1 == n {
            check_state(ctx, &game, &node, family);
            for f in 0..3 {
                if let Some(n2) = apply(ctx, &game, &node, &Op::Auto(f), family) {
                    check_state(ctx, &game, &n2, family);
                    // a pop clears the stored outcome and returns to the previous state
                    if let Some(n3) = apply(ctx, &game, &n2, &Op::Pop, family) {
                        check_state(ctx, &game, &n3, family);
                    }
                }
            }
        }
        if ctx.nviol > nv {
            return i;
        }
    }
    for i in 0..n {
        let nv = ctx.nviol;
        let parent = node.clone();
        if !apply_in_place(ctx, &game, &mut node, &parent, &Op::Pop, family) || ctx.nviol > nv {
            return n;
        }
        if (i + 1) % stride == 0 || i + 1 == n {
            check_state(ctx, &game, &node, family);
        }
        if ctx.nviol > nv {
            return n;
        }
    }
    n
}

/// replay of a recorded operation path, with the full oracle after every step
pub fn replay_path(case: &Value, ctx: &mut Ctx, family: u8) {
    let name = case["game"].as_str().unwrap_or("");
    let mut all: Vec<Game> = games(true).into_iter().chain(games(false)).collect();
    if let Some(g) = long_game_by_name(name) {
        all.push(g);
    }
    let Some(game) = all.iter().find(|g| g.name == name) else { return };
    CTOR.with(|c| c.set(case["ctor"].as_u64().unwrap_or(0) as u8));
    if case["ctor"].as_u64().unwrap_or(0) > 0 && case["path"].as_array().map(|a| a.is_empty()).unwrap_or(true) {
        ctor_differential(ctx, game);
    }
    let Some(mut node) = root(game) else { return };
    CTOR.with(|c| c.set(0));
    let ops = ops_of(game);
    let mut extra = ops.clone();
    // word alphabets may contain ops outside ops_of (they are a subset in practice)
    extra.extend([Op::Reset(false)]);
    check_state(ctx, game, &node, family);
    for step in case["path"].as_array().cloned().unwrap_or_default() {
        let s = step.as_str().unwrap_or("").to_string();
        let Some(op) = extra.iter().find(|o| format!("{:?}", o) == s) else {
            // flavours not in ops_of of this game
            let parsed = parse_op(&s);
            let Some(op) = parsed else { return };
            let Some(n) = apply(ctx, game, &node, &op, family) else { return };
            node = n;
            check_state(ctx, game, &node, family);
            continue;
        };
        let Some(n) = apply(ctx, game, &node, op, family) else { return };
        node = n;
        check_state(ctx, game, &node, family);
    }
}

fn parse_op(s: &str) -> Option<Op> {
    let nums: Vec<usize> = s.split(|c: char| !c.is_ascii_digit()).filter(|x| !x.is_empty()).filter_map(|x| x.parse().ok()).collect();
    if s.starts_with("Push(") && nums.len() == 2 {
        return Some(Op::Push(nums[0], nums[1] as u8));
    }
    if s.starts_with("Garbage(") && nums.len() == 2 {
        return Some(Op::Garbage(nums[0], nums[1] as u8));
    }
    if s.starts_with("List(") && nums.len() == 2 {
        return Some(Op::List(nums[0], nums[1]));
    }
    if s.starts_with("Auto(") && nums.len() == 1 {
        return Some(Op::Auto(nums[0] as u8));
    }
    match s {
        "Pop" => Some(Op::Pop),
        "Clear" => Some(Op::Clear),
        "Reset(true)" => Some(Op::Reset(true)),
        "Reset(false)" => Some(Op::Reset(false)),
        _ => None,
    }
}

/// all operation words up to `len` over a small alphabet, without any merging
pub fn words(ctx: &mut Ctx, game: &Game, alphabet: &[Op], first: &Op, len: usize, family: u8) {
    let Some(node) = root(game) else { return };
    let Some(node) = apply(ctx, game, &node, first, family) else { return };
    check_state(ctx, game, &node, family);
    fn rec(ctx: &mut Ctx, game: &Game, alphabet: &[Op], node: &Node, left: usize, family: u8) {
        ctx.add(WORDS, 1);
        if left == 0 {
            return;
        }
        for op in alphabet {
            let nv = ctx.nviol;
            let Some(n) = apply(ctx, game, node, op, family) else { continue };
            if ctx.nviol > nv {
                continue;
            }
            check_state(ctx, game, &n, family);
            rec(ctx, game, alphabet, &n, left - 1, family);
        }
    }
    rec(ctx, game, alphabet, &node, len - 1, family);
}

pub fn words_from(ctx: &mut Ctx, game: &Game, alphabet: &[Op], node: &Node, len: usize, family: u8) {
    fn rec(ctx: &mut Ctx, game: &Game, alphabet: &[Op], node: &Node, left: usize, family: u8) {
        ctx.add(WORDS, 1);
        if left == 0 {
            return;
        }
        for op in alphabet {
            let nv = ctx.nviol;
            let Some(n) = apply(ctx, game, node, op, family) else { continue };
            if ctx.nviol > nv {
                continue;
            }
            check_state(ctx, game, &n, family);
            rec(ctx, game, alphabet, &n, left - 1, family);
        }
    }
    rec(ctx, game, alphabet, node, len, family);
}

/// Outcome::passes / is_force over the full finite table
pub fn outcome_table(ctx: &mut Ctx) {
    use owlchess::Color;
    let wins = [WinReason::Checkmate, WinReason::TimeForfeit, WinReason::InvalidMove, WinReason::EngineError, WinReason::Resign, WinReason::Abandon, WinReason::Unknown];
    let draws = [DrawReason::Stalemate, DrawReason::InsufficientMaterial, DrawReason::Moves75, DrawReason::Repeat5, DrawReason::Moves50, DrawReason::Repeat3, DrawReason::Agreement, DrawReason::Unknown];
    let mut all: Vec<(Outcome, u8)> = Vec::new(); // (outcome, lowest filter level it passes: 0 force, 1 strict, 2 relaxed, 3 none)
    for side in [Color::White, Color::Black] {
        for r in wins {
            all.push((Outcome::Win { side, reason: r }, if r == WinReason::Checkmate { 0 } else { 3 }));
        }
    }
    for d in draws {
        let lvl = match d {
            DrawReason::Stalemate => 0,
            DrawReason::InsufficientMaterial | DrawReason::Moves75 | DrawReason::Repeat5 => 1,
            DrawReason::Moves50 | DrawReason::Repeat3 => 2,
            _ => 3,
        };
        all.push((Outcome::Draw(d), lvl));
    }
    for (o, lvl) in all {
        ctx.states += 1;
        ctx.add(OTABLE, 1);
        if o.is_force() != (lvl == 0) {
            ctx.violate(json!({"kind": "outcome_table", "outcome": format!("{:?}", o)}), format!("is_force({:?}) = {}", o, o.is_force()));
        }
        for (f, fl) in [(OutcomeFilter::Force, 0u8), (OutcomeFilter::Strict, 1), (OutcomeFilter::Relaxed, 2)] {
            ctx.transitions += 1;
            let want = lvl <= fl;
            if o.passes(f) != want {
                ctx.violate(json!({"kind": "outcome_table", "outcome": format!("{:?}", o)}), format!("{:?}.passes({:?}) = {} but the documented classification says {}", o, f, o.passes(f), want));
            }
        }
        let w = match o {
            Outcome::Win { side, .. } => Some(side),
            _ => None,
        };
        if o.winner() != w {
            ctx.violate(json!({"kind": "outcome_table", "outcome": format!("{:?}", o)}), "winner() wrong".into());
        }
    }
}

/// HASHCOLL: explore the POSITION graph of a shuffle game (model-driven BFS, dedup on exact
/// identity). Distinct identities with equal Zobrist hashes, one reachable from the other, are
/// turned into a witness game that is replayed on a real MoveChain, where the repetition count
/// must then disagree with the game history.
pub fn hash_collisions(ctx: &mut Ctx, name: &str, start: &Pos, alphabet: &[&str], max_states: usize) {
    use std::collections::{HashMap, VecDeque};
    type Ident = ([u8; 64], u8, [bool; 4], Option<u8>);
    let alpha: Vec<(u8, u8, u8)> = alphabet.iter().filter_map(|t| text::parse_uci(t)).collect();
    let moves_of = |p: &Pos| -> Vec<Mv> { p.legal().into_iter().filter(|m| alpha.contains(&(m.from, m.to, m.promo))).collect() };
    // forward BFS with parent pointers
    let mut idx: HashMap<Ident, usize> = HashMap::new();
    let mut nodes: Vec<(Pos, Option<(usize, Mv)>)> = vec![(*start, None)];
    idx.insert(start.ident(), 0);
    let mut q = VecDeque::from([0usize]);
    while let Some(i) = q.pop_front() {
        let p = nodes[i].0;
        for m in moves_of(&p) {
            let mut n = p.apply(m);
            n.hmc = 0;
            n.fmn = 1;
            if !idx.contains_key(&n.ident()) && nodes.len() < max_states {
                idx.insert(n.ident(), nodes.len());
                nodes.push((n, Some((i, m))));
                q.push_back(nodes.len() - 1);
            }
        }
    }
    ctx.states += nodes.len() as u64;
    // group by the implementation's hash
    let mut by_hash: HashMap<u64, Vec<usize>> = HashMap::new();
    for (i, (p, _)) in nodes.iter().enumerate() {
        if let Some(b) = board_of(p) {
            by_hash.entry(b.zobrist_hash()).or_default().push(i);
        }
    }
    let path_to = |mut i: usize| -> Vec<Mv> {
        let mut v = Vec::new();
        while let Some((pi, m)) = nodes[i].1 {
            v.push(m);
            i = pi;
        }
        v.reverse();
        v
    };
    for (_, group) in by_hash.iter().filter(|(_, g)| g.len() > 1) {
        for &a in group {
            for &b in group {
                if a == b {
                    continue;
                }
                // is b reachable from a? (BFS in the same graph)
                let mut seen: HashMap<Ident, Option<(Ident, Mv)>> = HashMap::new();
                let sa = nodes[a].0;
                seen.insert(sa.ident(), None);
                let mut qq = VecDeque::from([sa]);
                let target = nodes[b].0.ident();
                let mut found = false;
                while let Some(p) = qq.pop_front() {
                    if p.ident() == target {
                        found = true;
                        break;
                    }
                    for m in moves_of(&p) {
                        let mut n = p.apply(m);
                        n.hmc = 0;
                        n.fmn = 1;
                        if !seen.contains_key(&n.ident()) {
                            seen.insert(n.ident(), Some((p.ident(), m)));
                            qq.push_back(n);
                        }
                    }
                }
                if !found {
                    continue;
                }
                let mut tail = Vec::new();
                let mut cur = target;
                while let Some(Some((prev, m))) = seen.get(&cur) {
                    tail.push(*m);
                    cur = *prev;
                }
                tail.reverse();
                let mut game = path_to(a);
                game.extend(tail);
                // replay on a real chain and on the model
                let Some(b0) = board_of(start) else { return };
                let mut chain = MoveChain::new(b0);
                let mut model = MChain::new(*start);
                for m in &game {
                    let cur = *model.cur();
                    let Ok(mv) = to_move(&cur, *m) else { return };
                    if chain.push(mv).is_err() || !model.push(*m) {
                        return;
                    }
                }
                ctx.transitions += game.len() as u64;
                ctx.traces += 1;
                let occ = model.occurrences();
                let cnt = chain.verif_parts().0.verif_counts();
                let mine = cnt.iter().find(|(h, _)| *h == chain.last().zobrist_hash()).map(|c| c.1).unwrap_or(0);
                let (tier, reasons) = model.calc();
                let got = chain.calc_outcome();
                let ok_out = match got {
                    None => tier == 0,
                    Some(o) => mout_of(&o).map(|mo| mo.tier() == tier && reasons.contains(&mo)).unwrap_or(false),
                };
                if mine != occ || !ok_out {
                    ctx.violate(
                        json!({"kind": "collision", "game": name, "start": text::fen(start), "moves": game.iter().map(|m| text::uci(*m)).collect::<Vec<_>>()}),
                        format!("two different positions of one game share a Zobrist hash: after this game the current position has occurred {} time(s) but the chain counts {} (calc_outcome {:?}, history says tier {} {:?})", occ, mine, got, tier, reasons),
                    );
                    return;
                }
            }
        }
    }
}

pub fn replay_collision(case: &Value, ctx: &mut Ctx) {
    let Some(start) = case["start"].as_str().and_then(text::read_fen) else { return };
    let Some(b0) = board_of(&start) else { return };
    let mut chain = MoveChain::new(b0);
    let mut model = MChain::new(start);
    for u in case["moves"].as_array().cloned().unwrap_or_default() {
        let Some(u) = u.as_str() else { return };
        let cur = *model.cur();
        let Some(m) = cur.legal().into_iter().find(|m| text::uci(*m) == u) else { return };
        let Ok(mv) = to_move(&cur, m) else { return };
        if chain.push(mv).is_err() || !model.push(m) {
            return;
        }
    }
    let occ = model.occurrences();
    let cnt = chain.verif_parts().0.verif_counts();
    let mine = cnt.iter().find(|(h, _)| *h == chain.last().zobrist_hash()).map(|c| c.1).unwrap_or(0);
    if mine != occ {
        ctx.violate(case.clone(), format!("the current position has occurred {} time(s) but the chain counts {}", occ, mine));
    }
}

pub fn _unused(_: &Board) {}
