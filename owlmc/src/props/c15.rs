//! C15 - attack and between tables are exact for every square and every occupancy
//! (the tables of this very build, through hook H2)

use crate::bind::*;
use crate::engine::*;
use crate::model::text::sq_name;
use crate::model::*;
use owlchess::verif as hk;
use owlchess::{Bitboard, Color};
use serde_json::{json, Value};

pub const NAMES: &[&str] = &[
    "slider_lookups",
    "insensitivity_probes",
    "leaper_lookups",
    "pair_lookups",
    "aligned_pairs",
    "non_aligned_pairs_not_judged",
    "max_index_seen",
];
const SLIDER: usize = 0;
const PROBES: usize = 1;
const LEAPER: usize = 2;
const PAIRS: usize = 3;
const ALIGNED: usize = 4;
const NONALIGNED: usize = 5;
const MAXIDX: usize = 6;
pub const MAX_IDX: &[usize] = &[MAXIDX];

/// squares (model numbering) on the rays of `s` in the given directions, as a list
fn ray_set(s: usize, dirs: &[(i32, i32)]) -> Vec<usize> {
    let mut v = Vec::new();
    for &(df, dr) in dirs {
        let (mut x, mut y) = (file_of(s) + df, rank_of(s) + dr);
        while on(x, y) {
            v.push(sq(x, y));
            x += df;
            y += dr;
        }
    }
    v
}

/// model slider attack: walk each ray up to and including the first blocker
fn walk(s: usize, dirs: &[(i32, i32)], occ: u64) -> u64 {
    let mut res = 0u64;
    for &(df, dr) in dirs {
        let (mut x, mut y) = (file_of(s) + df, rank_of(s) + dr);
        while on(x, y) {
            let t = sq(x, y);
            res |= 1 << t;
            if occ >> t & 1 != 0 {
                break;
            }
            x += df;
            y += dr;
        }
    }
    res
}

fn deposit(squares: &[usize], x: u64) -> u64 {
    let mut r = 0u64;
    for (i, s) in squares.iter().enumerate() {
        if x >> i & 1 != 0 {
            r |= 1 << s;
        }
    }
    r
}

/// one slider lookup against the model (occupancy in model bits)
fn check_slider(ctx: &mut Ctx, rook: bool, s: usize, occ: u64, probe: bool) {
    let dirs: &[(i32, i32)] = if rook { &ORTH } else { &DIAG };
    let want = walk(s, dirs, occ);
    let obb = model_to_bb(occ);
    let view = if rook { hk::rook_magic(oc(s), obb) } else { hk::bishop_magic(oc(s), obb) };
    ctx.max(MAXIDX, (view.offset + view.idx) as u64);
    let case = || json!({"kind": "slider", "rook": rook, "square": s, "occ": format!("{:#x}", occ)});
    if view.offset + view.idx >= view.table_len {
        ctx.violate(case(), format!("lookup index {} + {} is outside the table of {} entries", view.offset, view.idx, view.table_len));
        return; // the real lookup would read out of bounds
    }
    let got = bb_to_model(if rook { hk::rook(oc(s), obb) } else { hk::bishop(oc(s), obb) });
    if probe {
        ctx.add(PROBES, 1);
    } else {
        ctx.add(SLIDER, 1);
    }
    ctx.transitions += 1;
    ctx.traces += 1;
    if got != want {
        ctx.violate(
            case(),
            format!("{} attack set from {} with occupancy {:#x} is {:#x} but sliding up to the first blocker gives {:#x}", if rook { "rook-line" } else { "bishop-line" }, sq_name(s), occ, got, want),
        );
    }
}

fn sliders(ctx: &mut Ctx, s: usize) {
    for rook in [true, false] {
        let dirs: &[(i32, i32)] = if rook { &ORTH } else { &DIAG };
        let rays = ray_set(s, dirs);
        let rays_mask: u64 = rays.iter().fold(0, |a, &t| a | 1 << t);
        // structural facts read through the hook: the stored pre-mask lies inside the geometric
        // ray set, the post-mask contains it (so the lookup depends on occ & rays only)
        let view = if rook { hk::rook_magic(oc(s), Bitboard::EMPTY) } else { hk::bishop_magic(oc(s), Bitboard::EMPTY) };
        let mask = bb_to_model(view.mask);
        let post = bb_to_model(view.post_mask);
        ctx.states += 1;
        if mask & !rays_mask != 0 {
            ctx.violate(json!({"kind": "mask", "rook": rook, "square": s}), format!("stored pre-mask {:#x} of {} reaches outside the geometric ray set {:#x}", mask, sq_name(s), rays_mask));
        }
        if rays_mask & !post != 0 {
            ctx.violate(json!({"kind": "mask", "rook": rook, "square": s}), format!("stored post-mask {:#x} of {} does not contain the geometric ray set {:#x}", post, sq_name(s), rays_mask));
        }
        // every subset of the geometric ray set
        let n = rays.len();
        for x in 0..(1u64 << n) {
            let occ = deposit(&rays, x);
            ctx.states += 1;
            check_slider(ctx, rook, s, occ, false);
            // insensitivity to everything off the rays (and to the square itself)
            check_slider(ctx, rook, s, occ | !rays_mask, true);
            if x % 64 == (s as u64) {
                // every single off-ray square added to this subset
                for t in 0..64usize {
                    if rays_mask >> t & 1 == 0 {
                        check_slider(ctx, rook, s, occ | 1 << t, true);
                    }
                }
            }
        }
    }
}

fn leapers(ctx: &mut Ctx) {
    for s in 0..64usize {
        let (f, r) = (file_of(s), rank_of(s));
        let off = |d: &[(i32, i32)]| -> u64 { d.iter().filter(|(df, dr)| on(f + df, r + dr)).fold(0, |a, (df, dr)| a | 1 << sq(f + df, r + dr)) };
        let checks: [(&str, u64, u64); 4] = [
            ("king", bb_to_model(hk::king(oc(s))), off(&KG)),
            ("knight", bb_to_model(hk::knight(oc(s))), off(&KN)),
            // a white pawn attacks the two squares diagonally ahead (towards rank 8)
            ("white pawn", bb_to_model(hk::pawn(Color::White, oc(s))), off(&[(-1, 1), (1, 1)])),
            ("black pawn", bb_to_model(hk::pawn(Color::Black, oc(s))), off(&[(-1, -1), (1, -1)])),
        ];
        for (name, got, want) in checks {
            ctx.states += 1;
            ctx.transitions += 1;
            ctx.traces += 1;
            ctx.add(LEAPER, 1);
            if got != want {
                ctx.violate(json!({"kind": "leaper", "piece": name, "square": s}), format!("{} attack set from {} is {:#x} but geometry gives {:#x}", name, sq_name(s), got, want));
            }
        }
    }
}

fn between(ctx: &mut Ctx) {
    for a in 0..64usize {
        for b in 0..64usize {
            ctx.states += 1;
            ctx.transitions += 1;
            ctx.traces += 1;
            ctx.add(PAIRS, 1);
            let (df, dr) = (file_of(b) - file_of(a), rank_of(b) - rank_of(a));
            let diag = a != b && df.abs() == dr.abs();
            let line = a != b && (df == 0 || dr == 0);
            let gb = hk::is_bishop_valid(oc(a), oc(b));
            let gr = hk::is_rook_valid(oc(a), oc(b));
            if gb != diag {
                ctx.violate(json!({"kind": "pair", "a": a, "b": b, "what": "is_bishop_valid"}), format!("is_bishop_valid({}, {}) = {} but alignment is {}", sq_name(a), sq_name(b), gb, diag));
            }
            if gr != line {
                ctx.violate(json!({"kind": "pair", "a": a, "b": b, "what": "is_rook_valid"}), format!("is_rook_valid({}, {}) = {} but alignment is {}", sq_name(a), sq_name(b), gr, line));
            }
            let strict = |a: usize, b: usize| -> u64 {
                let (sf, sr) = ((file_of(b) - file_of(a)).signum(), (rank_of(b) - rank_of(a)).signum());
                let mut res = 0u64;
                let (mut x, mut y) = (file_of(a) + sf, rank_of(a) + sr);
                while sq(x, y) != b {
                    res |= 1 << sq(x, y);
                    x += sf;
                    y += sr;
                }
                res
            };
            if diag {
                ctx.add(ALIGNED, 1);
                let got = bb_to_model(hk::bishop_strict(oc(a), oc(b)));
                if got != strict(a, b) {
                    ctx.violate(json!({"kind": "pair", "a": a, "b": b, "what": "bishop_strict"}), format!("bishop_strict({}, {}) = {:#x} but the squares strictly between are {:#x}", sq_name(a), sq_name(b), got, strict(a, b)));
                }
            } else if line {
                ctx.add(ALIGNED, 1);
                let got = bb_to_model(hk::rook_strict(oc(a), oc(b)));
                if got != strict(a, b) {
                    ctx.violate(json!({"kind": "pair", "a": a, "b": b, "what": "rook_strict"}), format!("rook_strict({}, {}) = {:#x} but the squares strictly between are {:#x}", sq_name(a), sq_name(b), got, strict(a, b)));
                }
            } else {
                // outside the functions' contract (every call site passes aligned pairs): recorded, not judged
                ctx.add(NONALIGNED, 1);
            }
        }
    }
}

pub fn run(run: &mut Run) {
    run.counter_names = NAMES;
    run.max_idx = MAX_IDX;
    run.assumptions = vec![
        "hook H2 (read-only wrappers over the private lookups, magic entry views)".into(),
        "extension from 'every subset of the geometric ray set' to all 2^64 occupancies: the lookup reads the occupancy only through `occupied & mask` (read from attack.rs) and mask is a subset of the geometric rays (checked); additionally probed black-box with every off-ray square and the complete off-ray complement".into(),
        "strictly-between results for non-aligned pairs are outside the functions' contract and are not judged".into(),
    ];
    run.par_shards("SLIDERS (64 squares x every subset of the geometric rook/bishop rays)", 64, |ctx, s| sliders(ctx, s));
    run.seq("LEAPERS and PAWNS (64 squares, both colours)", |ctx| leapers(ctx));
    run.seq("BETWEEN / ALIGNMENT (64 x 64 pairs)", |ctx| between(ctx));
    run.total.samples.push(json!({"example": "rook from a1 with occupancy {a4, d1, h8}", "attack_model_bits": format!("{:#x}", walk(0, &ORTH, 1 << 24 | 1 << 3 | 1 << 63))}));
}

pub fn replay(case: &Value, ctx: &mut Ctx) {
    match case["kind"].as_str() {
        Some("slider") => {
            let occ = u64::from_str_radix(case["occ"].as_str().unwrap_or("0x0").trim_start_matches("0x"), 16).unwrap_or(0);
            check_slider(ctx, case["rook"].as_bool().unwrap_or(true), case["square"].as_u64().unwrap_or(0) as usize, occ, false);
        }
        Some("mask") => {
            let mut c = Ctx::new();
            sliders(&mut c, case["square"].as_u64().unwrap_or(0) as usize);
            for v in c.viol {
                if v.case["kind"] == "mask" {
                    ctx.violate(v.case, v.msg);
                }
            }
        }
        Some("leaper") => {
            let mut c = Ctx::new();
            leapers(&mut c);
            for v in c.viol {
                if v.case == *case {
                    ctx.violate(v.case, v.msg);
                }
            }
        }
        Some("pair") => {
            let mut c = Ctx::new();
            between(&mut c);
            for v in c.viol {
                if v.case == *case {
                    ctx.violate(v.case, v.msg);
                }
            }
        }
        _ => {}
    }
}
