//! Validation of the reference model against ground truth that does not come from owlchess:
//! published perft tables.

use crate::model::text::read_fen;
use rayon::prelude::*;

pub const PERFT: &[(&str, &[u64])] = &[
    (
        "rnbqkbnr/pppppppp/8/8/8/8/PPPPPPPP/RNBQKBNR w KQkq - 0 1",
        &[20, 400, 8902, 197281, 4865609],
    ),
    (
        "r3k2r/p1ppqpb1/bn2pnp1/3PN3/1p2P3/2N2Q1p/PPPBBPPP/R3K2R w KQkq - 0 1",
        &[48, 2039, 97862, 4085603],
    ),
    ("8/2p5/3p4/KP5r/1R3p1k/8/4P1P1/8 w - - 0 1", &[14, 191, 2812, 43238, 674624]),
    (
        "r3k2r/Pppp1ppp/1b3nbN/nP6/BBP1P3/q4N2/Pp1P2PP/R2Q1RK1 w kq - 0 1",
        &[6, 264, 9467, 422333],
    ),
    (
        "rnbq1k1r/pp1Pbppp/2p5/8/2B5/8/PPP1NnPP/RNBQK2R w KQ - 1 8",
        &[44, 1486, 62379, 2103487],
    ),
    (
        "r4rk1/1pp1qppp/p1np1n2/2b1p1B1/2B1P1b1/P1NP1N2/1PP1QPPP/R4RK1 w - - 0 10",
        &[46, 2079, 89890, 3894594],
    ),
    ("n1n5/PPPk4/8/8/8/8/4Kppp/5N1N b - - 0 1", &[24, 496, 9483, 182838, 3605103]),
    ("r3k2r/8/8/8/8/8/8/R3K2R w KQkq - 0 1", &[26, 568, 13744, 314346]),
];

pub fn model_selfcheck() -> Result<usize, String> {
    let jobs: Vec<(&str, usize, u64)> = PERFT
        .iter()
        .flat_map(|(f, v)| v.iter().enumerate().map(move |(d, n)| (*f, d + 1, *n)))
        .collect();
    let res: Vec<Result<(), String>> = jobs
        .par_iter()
        .map(|(f, d, want)| {
            let p = read_fen(f).ok_or_else(|| format!("model cannot read {}", f))?;
            // also the colour-mirrored twin must give the same count
            let got = p.perft(*d as u32);
            let got_m = crate::universe::mirror_colours(&p).perft(*d as u32);
            if got != *want || got_m != *want {
                return Err(format!(
                    "perft({}) of {}: model {} / mirrored {} but published {}",
                    d, f, got, got_m, want
                ));
            }
            Ok(())
        })
        .collect();
    for r in &res {
        if let Err(e) = r {
            return Err(e.clone());
        }
    }
    Ok(jobs.len())
}
