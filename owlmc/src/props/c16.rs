//! C16 - attack and check queries agree with the rules on every position

use crate::bind::*;
use crate::engine::*;
use crate::model::*;
use crate::props::common::*;
use owlchess::movegen::{cell_attackers, is_cell_attacked};
use owlchess::Board;
use serde_json::{json, Value};

pub const NAMES: &[&str] = &[
    "queries",
    "attacked_squares",
    "multiply_attacked",
    "own_occupied_targets_attacked",
    "in_check",
    "double_check",
    "model_impl_validity_disagreements",
];
const QUERIES: usize = 0;
const ATTACKED: usize = 1;
const MULTI: usize = 2;
const OWN: usize = 3;
const CHECK: usize = 4;
const DCHECK: usize = 5;
const DISAGREE: usize = 6;

pub fn check_pos(ctx: &mut Ctx, p: &Pos, b: &Board) {
    ctx.states += 1;
    for s in 0..64usize {
        for by in 0..2u8 {
            ctx.transitions += 1;
            ctx.traces += 1;
            ctx.add(QUERIES, 1);
            let want = p.attackers(s, by);
            let got = bb_to_model(cell_attackers(b, oc(s), ocolor(by)));
            let flag = is_cell_attacked(b, oc(s), ocolor(by));
            if want != 0 {
                ctx.add(ATTACKED, 1);
                if want.count_ones() > 1 {
                    ctx.add(MULTI, 1);
                }
                if p.b[s] != EMPTY && colour(p.b[s]) == by {
                    ctx.add(OWN, 1);
                }
            }
            if got != want {
                ctx.violate(
                    json!({"kind": "pos", "fen": text::fen(p), "what": "cell_attackers", "square": text::sq_name(s), "by": by}),
                    format!("cell_attackers({}, colour {}) = {:#x} but the rules give {:#x} (model square bits)", text::sq_name(s), by, got, want),
                );
            }
            if flag != (want != 0) {
                ctx.violate(
                    json!({"kind": "pos", "fen": text::fen(p), "what": "is_cell_attacked", "square": text::sq_name(s), "by": by}),
                    format!("is_cell_attacked({}, colour {}) = {} but the rules say {}", text::sq_name(s), by, flag, want != 0),
                );
            }
        }
    }
    let us = p.stm;
    let k = p.king_sq(us).unwrap();
    let want = p.attackers(k, 1 - us);
    if want != 0 {
        ctx.add(CHECK, 1);
        if want.count_ones() > 1 {
            ctx.add(DCHECK, 1);
        }
    }
    if b.is_check() != (want != 0) {
        ctx.violate(case_pos(p, "is_check"), format!("is_check = {} but the rules say {}", b.is_check(), want != 0));
    }
    let got = bb_to_model(b.checkers());
    if got != want {
        ctx.violate(case_pos(p, "checkers"), format!("checkers = {:#x} but the rules give {:#x}", got, want));
    }
    if b.is_opponent_king_attacked() {
        ctx.violate(case_pos(p, "is_opponent_king_attacked"), "is_opponent_king_attacked is true on a valid position".into());
    }
    if ctx.samples.is_empty() {
        ctx.samples.push(json!({"fen": text::fen(p), "checkers_model_bits": format!("{:#x}", want)}));
    }
}

use crate::model::text;

pub fn run(run: &mut Run) {
    run.counter_names = NAMES;
    run.assumptions = vec!["reference model refchess: attackers() by walking offsets and rays".into()];
    let thorough = run.thorough();
    let sel = if thorough {
        Sel { m3: true, ray: Some(3), ep: Some(false), castle: Some(false), promo: Some(false), reach: Some(4), m4: Some(crate::universe::M4_SHARDS), occ: true, pin2: Some(4), hist: Some((4, 3)), multicheck: Some(3), checkpin: Some(3), castle2: true, hemmed: true, aligned: true, counts: true, promorow: true, backrank: true, ..Default::default() }
    } else {
        Sel { m3: true, ray: Some(2), ep: Some(false), castle: Some(false), promo: Some(false), reach: Some(3), occ: true, hist: Some((3, 2)), multicheck: Some(2), checkpin: Some(1), castle2: true, hemmed: true, aligned: true, counts: true, promorow: true, backrank: true, ..Default::default() }
    };
    run_universes(run, &sel, DISAGREE, &check_pos);
}

pub fn replay(case: &Value, ctx: &mut Ctx) {
    replay_pos(case, ctx, &check_pos);
}
