//! C03 - applying a move produces the position the rules prescribe

use crate::bind::*;
use crate::engine::*;
use crate::model::text;
use crate::model::*;
use crate::props::common::*;
use owlchess::Board;
use serde_json::{json, Value};

pub const NAMES: &[&str] = &[
    "captures",
    "en_passant",
    "castlings",
    "promotions",
    "double_steps",
    "rights_lost",
    "rook_captured_at_home",
    "clock_reset",
    "clock_at_limit",
    "number_at_limit",
    "model_impl_validity_disagreements",
];
const CAP: usize = 0;
const EP: usize = 1;
const CASTLE: usize = 2;
const PROMO: usize = 3;
const DBL: usize = 4;
const RIGHTS: usize = 5;
const ROOKCAP: usize = 6;
const RESET: usize = 7;
const CLIM: usize = 8;
const NLIM: usize = 9;
const DISAGREE: usize = 10;

fn clamp(mut q: Pos) -> Pos {
    q.hmc = q.hmc.min(65535);
    q.fmn = q.fmn.min(65535);
    q
}

pub fn check_pos(ctx: &mut Ctx, p: &Pos, b: &Board) {
    ctx.states += 1;
    for m in p.legal() {
        ctx.transitions += 1;
        ctx.traces += 1;
        let want = clamp(p.apply(m));
        // counters
        if p.is_capture(m) {
            ctx.add(CAP, 1);
        }
        match m.flag {
            1 => ctx.add(DBL, 1),
            2 => ctx.add(EP, 1),
            3 | 4 => ctx.add(CASTLE, 1),
            _ => {}
        }
        if m.promo != 0 {
            ctx.add(PROMO, 1);
        }
        if want.cr != p.cr {
            ctx.add(RIGHTS, 1);
            let t = p.b[m.to as usize];
            if t != EMPTY && kind(t) == R {
                ctx.add(ROOKCAP, 1);
            }
        }
        if want.hmc == 0 {
            ctx.add(RESET, 1);
        }
        if p.hmc == 65535 && want.hmc == 65535 {
            ctx.add(CLIM, 1);
        }
        if p.fmn == 65535 && p.stm == 1 {
            ctx.add(NLIM, 1);
        }

        let mv = match to_move(p, m) {
            Ok(mv) => mv,
            Err(e) => {
                ctx.violate(case_pos_mv(p, "Move::new", m), e);
                continue;
            }
        };
        let res = guarded(|| b.make_move(mv));
        let nb = match res {
            Err(msg) => {
                ctx.violate(case_pos_mv(p, "make_move", m), format!("make_move panicked: {}", msg));
                continue;
            }
            Ok(Err(e)) => {
                ctx.violate(case_pos_mv(p, "make_move", m), format!("legal move refused: {}", e));
                continue;
            }
            Ok(Ok(nb)) => nb,
        };
        let want_raw = to_raw(&want);
        let got = nb.raw();
        if *got != want_raw {
            let mut d = Vec::new();
            for s in 0..64 {
                if got.get(oc(s)) != want_raw.get(oc(s)) {
                    d.push(format!("{}: {:?} (rules: {:?})", text::sq_name(s), got.get(oc(s)), want_raw.get(oc(s))));
                }
            }
            if got.side != want_raw.side {
                d.push("side to move".into());
            }
            if got.castling != want_raw.castling {
                d.push(format!("castling {} (rules: {})", got.castling, want_raw.castling));
            }
            if got.ep_source != want_raw.ep_source {
                d.push(format!("en-passant mark {:?} (rules: {:?})", got.ep_source, want_raw.ep_source));
            }
            if got.move_counter != want_raw.move_counter {
                d.push(format!("half-move clock {} (rules: {})", got.move_counter, want_raw.move_counter));
            }
            if got.move_number != want_raw.move_number {
                d.push(format!("move number {} (rules: {})", got.move_number, want_raw.move_number));
            }
            ctx.violate(case_pos_mv(p, "successor", m), format!("position after the move differs from the rules: {}", d.join("; ")));
        }
        let fen = nb.as_fen();
        let want_fen = text::fen(&want);
        if fen != want_fen {
            ctx.violate(case_pos_mv(p, "successor fen", m), format!("FEN after the move is `{}` but the rules give `{}`", fen, want_fen));
        }
        if ctx.samples.len() < 2 && (m.flag != 0 || m.promo != 0) {
            ctx.samples.push(json!({"fen": text::fen(p), "move": text::uci(m), "successor": want_fen}));
        }
    }
}

pub fn run(run: &mut Run) {
    run.counter_names = NAMES;
    run.assumptions = vec![
        "reference model refchess: apply() by the rules, counters clamped at 65535 (never wrap)".into(),
        "two build configurations: verif (a wrap would be an overflow panic) and release (a wrap would be a silently wrong value)".into(),
    ];
    let thorough = run.thorough();
    let mut sel = Sel::standard(thorough);
    sel.counters = true;
    sel.clocks = true;
    sel.ray = None;
    if !thorough {
        // quick: applying a move does not depend on check geometry; these families stay in the
        // thorough tier here
        sel.boxk = None;
        sel.backrank = false;
        sel.multicheck = None;
    }
    run_universes(run, &sel, DISAGREE, &check_pos);
    spawn_release_leg(run, "release-configuration leg");
}

/// the same oracle in the optimised configuration
pub fn leg(run: &mut Run) {
    run.counter_names = NAMES;
    let sel = Sel {
        m3: true,
        ep: Some(false),
        castle: Some(false),
        promo: Some(false),
        reach: Some(if run.thorough() { 3 } else { 2 }),
        counters: true,
        ..Default::default()
    };
    run_universes(run, &sel, DISAGREE, &check_pos);
}

pub fn replay(case: &Value, ctx: &mut Ctx) {
    replay_pos(case, ctx, &check_pos);
}
