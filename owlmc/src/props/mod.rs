//! Property registry.

use crate::engine::{Ctx, Run};
use serde_json::Value;

pub mod c01;
pub mod common;
pub mod selfcheck;

pub struct Prop {
    pub id: &'static str,
    pub run: fn(&mut Run),
    pub replay: fn(&Value, &mut Ctx),
}

pub const PROPS: &[Prop] = &[
    Prop { id: "C01", run: c01::run, replay: c01::replay },
];

pub fn find(id: &str) -> Option<&'static Prop> {
    PROPS.iter().find(|p| p.id == id)
}

/// auxiliary legs run in another build configuration (see C03 / C19)
pub fn run_leg(_id: &str, _leg: &str, _args: &[String]) -> u8 {
    2
}
