//! Property registry.

use crate::engine::{Ctx, Run};
use serde_json::Value;

pub mod c01;
pub mod c02;
pub mod c03;
pub mod c04;
pub mod c05;
pub mod c06;
pub mod c07;
pub mod c08;
pub mod c09;
pub mod c10;
pub mod c11;
pub mod c12;
pub mod c13;
pub mod chains;
pub mod c15;
pub mod c16;
pub mod c17;
pub mod c18;
pub mod c19;
pub mod c20;
pub mod common;
pub mod selfcheck;
pub mod strs;

pub struct Prop {
    pub id: &'static str,
    pub run: fn(&mut Run),
    pub replay: fn(&Value, &mut Ctx),
    pub leg: Option<fn(&mut Run)>,
}

pub const PROPS: &[Prop] = &[
    Prop { id: "C01", run: c01::run, replay: c01::replay, leg: None },
    Prop { id: "C02", run: c02::run, replay: c02::replay, leg: None },
    Prop { id: "C03", run: c03::run, replay: c03::replay, leg: Some(c03::leg) },
    Prop { id: "C04", run: c04::run, replay: c04::replay, leg: None },
    Prop { id: "C05", run: c05::run, replay: c05::replay, leg: None },
    Prop { id: "C06", run: c06::run, replay: c06::replay, leg: None },
    Prop { id: "C07", run: c07::run, replay: c07::replay, leg: None },
    Prop { id: "C08", run: c08::run, replay: c08::replay, leg: None },
    Prop { id: "C09", run: c09::run, replay: c09::replay, leg: None },
    Prop { id: "C10", run: c10::run, replay: c10::replay, leg: None },
    Prop { id: "C11", run: c11::run, replay: c11::replay, leg: None },
    Prop { id: "C12", run: c12::run, replay: c12::replay, leg: None },
    Prop { id: "C13", run: c13::run13, replay: c13::replay13, leg: None },
    Prop { id: "C14", run: c13::run14, replay: c13::replay14, leg: None },
    Prop { id: "C15", run: c15::run, replay: c15::replay, leg: None },
    Prop { id: "C16", run: c16::run, replay: c16::replay, leg: None },
    Prop { id: "C17", run: c17::run, replay: c17::replay, leg: None },
    Prop { id: "C18", run: c18::run, replay: c18::replay, leg: None },
    Prop { id: "C19", run: c19::run, replay: c19::replay, leg: Some(c19::leg) },
    Prop { id: "C20", run: c20::run, replay: c20::replay, leg: None },
];

pub fn find(id: &str) -> Option<&'static Prop> {
    PROPS.iter().find(|p| p.id == id)
}

/// auxiliary legs run in another build configuration (see C03 / C19): `owlmc leg <ID> <tier>`
pub fn run_leg(id: &str, tier: &str, _args: &[String]) -> u8 {
    let Some(prop) = find(id) else { return 2 };
    let Some(leg) = prop.leg else { return 2 };
    crate::engine::install_panic_hook();
    let tier = if tier == "thorough" { crate::engine::Tier::Thorough } else { crate::engine::Tier::Quick };
    let mut run = Run::new(prop.id, tier);
    leg(&mut run);
    crate::engine::print_leg_result(&run);
    0
}
