//! C11 - validation accepts exactly the valid raw boards and normalises them consistently

use crate::bind::*;
use crate::engine::*;
use crate::model::text;
use crate::model::*;
use crate::props::common::*;
use owlchess::board::FenParseError;
use owlchess::Board;
use serde_json::{json, Value};

pub const NAMES: &[&str] = &[
    "accepted",
    "rejected",
    "rej_invalid_ep",
    "rej_too_many_pieces",
    "rej_no_king",
    "rej_too_many_kings",
    "rej_invalid_pawn",
    "rej_opp_king_attacked",
    "rights_dropped",
    "ep_mark_dropped",
    "ep_mark_kept",
    "several_reasons_apply",
    "idempotence_checks",
    "model_impl_validity_disagreements",
];
const ACC: usize = 0;
const REJ: usize = 1;
const RDROP: usize = 8;
const EDROP: usize = 9;
const EKEEP: usize = 10;
const SEVERAL: usize = 11;
const IDEM: usize = 12;
const DISAGREE: usize = 13;

pub fn check_raw(ctx: &mut Ctx, r: &RawPos) {
    ctx.states += 1;
    ctx.transitions += 1;
    ctx.traces += 1;
    set_slot_raw(r);
    let raw = raw_of_rawpos(r);
    let got = match guarded(|| Board::try_from(raw)) {
        Ok(g) => g,
        Err(m) => {
            ctx.violate(case_raw(r, "try_from"), format!("Board::try_from panicked: {}", m));
            return;
        }
    };
    let want = r.validate();
    match (&got, &want) {
        (Ok(b), Ok(q)) => {
            ctx.add(ACC, 1);
            if q.cr != r.cr {
                ctx.add(RDROP, 1);
            }
            if r.eps.is_some() {
                if q.ep.is_some() {
                    ctx.add(EKEEP, 1);
                } else {
                    ctx.add(EDROP, 1);
                }
            }
            let want_raw = to_raw(q);
            if *b.raw() != want_raw {
                ctx.violate(case_raw(r, "normalisation"), format!("validated board is `{}` but the normal form is `{}`", b.raw().as_fen(), want_raw.as_fen()));
            }
            if let Err(e) = coherent(b) {
                ctx.violate(case_raw(r, "derived data"), format!("validated board is incoherent: {}", e));
            }
            ctx.add(IDEM, 1);
            match Board::try_from(*b.raw()) {
                Ok(b2) => {
                    if full(&b2) != full(b) {
                        ctx.violate(case_raw(r, "idempotence"), format!("validating the result again changes it: {}", full_diff(&full(&b2), &full(b))));
                    }
                }
                Err(e) => ctx.violate(case_raw(r, "idempotence"), format!("validating the result again fails: {}", e)),
            }
        }
        (Err(e), Err(reasons)) => {
            ctx.add(REJ, 1);
            let re = reason_of(e);
            let idx = match re {
                Reason::InvalidEp(_) => 2,
                Reason::TooManyPieces(_) => 3,
                Reason::NoKing(_) => 4,
                Reason::TooManyKings(_) => 5,
                Reason::InvalidPawn(_) => 6,
                Reason::OppKingAttacked => 7,
            };
            ctx.add(idx, 1);
            if reasons.len() > 1 {
                ctx.add(SEVERAL, 1);
            }
            if !reasons.contains(&re) {
                ctx.violate(case_raw(r, "reason"), format!("reported reason {:?} does not hold; the conditions that hold are {:?}", e, reasons));
            }
        }
        (Ok(b), Err(reasons)) => ctx.violate(case_raw(r, "accepted invalid"), format!("accepted as `{}` although {:?}", b.as_fen(), reasons)),
        (Err(e), Ok(q)) => ctx.violate(case_raw(r, "rejected valid"), format!("rejected with {:?} although the board is valid (normal form `{}`)", e, text::fen(q))),
    }
    // the FEN path must give the same verdict for boards expressible in FEN
    let consistent_ep = r.eps.map(|e| rank_of(e as usize) == ep_pawn_rank(r.stm)).unwrap_or(true);
    if consistent_ep && r.hmc <= 65535 && r.fmn <= 65535 {
        let fen = text::fen_raw(r);
        let gf = Board::from_fen(&fen);
        let same = match (&gf, &got) {
            (Ok(a), Ok(b)) => full(a) == full(b),
            (Err(FenParseError::Valid(a)), Err(b)) => a == b,
            _ => false,
        };
        if !same {
            ctx.violate(case_raw(r, "from_fen vs try_from"), format!("Board::from_fen(`{}`) = {:?} but try_from of the same board = {:?}", fen, gf.map(|b| b.as_fen()), got.as_ref().map(|b| b.as_fen())));
        }
    }
    if ctx.samples.len() < 2 && (ctx.samples.is_empty() == got.is_ok()) {
        ctx.samples.push(json!({"raw": rawpos_json(r), "impl": format!("{:?}", got.as_ref().map(|b| b.as_fen())), "model": format!("{:?}", want.as_ref().map(text::fen))}));
    }
}

fn with_variants(ctx: &mut Ctx, base: &RawPos, occupied: &[usize]) {
    // rights: none and all (normalisation must drop exactly the unsupported ones)
    for cr in [[false; 4], [true; 4]] {
        let mut r = *base;
        r.cr = cr;
        r.eps = None;
        check_raw(ctx, &r);
    }
    // en-passant mark on every occupied square and on one empty square
    let mut marks: Vec<usize> = occupied.to_vec();
    if let Some(e) = (24..40).find(|s| base.b[*s] == EMPTY) {
        marks.push(e);
    }
    for m in marks {
        let mut r = *base;
        r.cr = [false; 4];
        r.eps = Some(m as u8);
        check_raw(ctx, &r);
    }
}

/// RAW(a): every board with <= max occupied squares, all 12 kinds, both sides; shard = first square
fn raw_a(ctx: &mut Ctx, first: usize, max: usize) {
    for stm in 0..2u8 {
        if first == 0 {
            let r = RawPos { b: [EMPTY; 64], stm, cr: [false; 4], eps: None, hmc: 7, fmn: 9 };
            with_variants(ctx, &r, &[]);
        }
        for &c in &ALL_CELLS {
            let mut r1 = RawPos { b: [EMPTY; 64], stm, cr: [false; 4], eps: None, hmc: 7, fmn: 9 };
            r1.b[first] = c;
            with_variants(ctx, &r1, &[first]);
            if max < 2 {
                continue;
            }
            for y in (first + 1)..64 {
                for &d in &ALL_CELLS {
                    let mut r2 = r1;
                    r2.b[y] = d;
                    with_variants(ctx, &r2, &[first, y]);
                    if max < 3 {
                        continue;
                    }
                    for z in (y + 1)..64 {
                        for &e in &ALL_CELLS {
                            let mut r3 = r2;
                            r3.b[z] = e;
                            // plain + all rights; marks only when a pawn is involved
                            let mut r = r3;
                            check_raw(ctx, &r);
                            r.cr = [true; 4];
                            check_raw(ctx, &r);
                            if kind(c) == P || kind(d) == P || kind(e) == P {
                                for m in [first, y, z] {
                                    let mut r = r3;
                                    r.eps = Some(m as u8);
                                    check_raw(ctx, &r);
                                }
                            }
                        }
                    }
                }
            }
        }
    }
}

/// RAW(b): the six home squares x {empty, K, R, k, r, N} x 16 rights x 2 sides
fn raw_b(ctx: &mut Ctx, shard: usize) {
    let homes = [sq(4, 0), sq(0, 0), sq(7, 0), sq(4, 7), sq(0, 7), sq(7, 7)];
    let alph = [EMPTY, K, R, K | BLACK, R | BLACK, N];
    // shard = content of the first home square
    for rest in 0..6usize.pow(5) {
        let mut b = [EMPTY; 64];
        b[homes[0]] = alph[shard];
        let mut x = rest;
        for h in &homes[1..] {
            b[*h] = alph[x % 6];
            x /= 6;
        }
        // make sure each side has a king somewhere if none stands on a home square
        if !b.contains(&K) {
            b[sq(3, 2)] = K;
        }
        if !b.contains(&(K | BLACK)) {
            b[sq(3, 5)] = K | BLACK;
        }
        for stm in 0..2u8 {
            for crm in 0..16u8 {
                let r = RawPos { b, stm, cr: [crm & 1 != 0, crm & 2 != 0, crm & 4 != 0, crm & 8 != 0], eps: None, hmc: 0, fmn: 1 };
                check_raw(ctx, &r);
            }
        }
    }
}

/// RAW(c): en-passant mark on each of the 64 squares x what stands on it / behind it / before it
fn raw_c(ctx: &mut Ctx, mark: usize) {
    let on_alph = [EMPTY, P, P | BLACK, N, N | BLACK, R | BLACK];
    let near_alph = [EMPTY, P, P | BLACK, N | BLACK];
    for stm in 0..2u8 {
        for &on in &on_alph {
            for &up in &near_alph {
                for &down in &near_alph {
                    for (wk, bk) in [(sq(0, 0), sq(7, 7)), (sq(7, 0), sq(0, 7)), (sq(2, 0), sq(5, 7))] {
                        let mut b = [EMPTY; 64];
                        if mark == wk || mark == bk {
                            continue;
                        }
                        b[wk] = K;
                        b[bk] = K | BLACK;
                        b[mark] = on;
                        if mark + 8 < 64 && b[mark + 8] == EMPTY {
                            b[mark + 8] = up;
                        }
                        if mark >= 8 && b[mark - 8] == EMPTY {
                            b[mark - 8] = down;
                        }
                        let r = RawPos { b, stm, cr: [false; 4], eps: Some(mark as u8), hmc: 0, fmn: 1 };
                        check_raw(ctx, &r);
                    }
                }
            }
        }
    }
}

/// RAW(d): n white and m black knights for n, m in 0..=20 (the sixteen-men limit)
fn raw_d(ctx: &mut Ctx) {
    for n in 0..=20usize {
        for m in 0..=20usize {
            for stm in 0..2u8 {
                let mut b = [EMPTY; 64];
                b[sq(4, 0)] = K;
                b[sq(4, 7)] = K | BLACK;
                // white knights fill ranks 2-4 from a2, black knights ranks 7-5 from a7
                for i in 0..n {
                    b[8 + i] = N;
                }
                for i in 0..m {
                    b[55 - i] = N | BLACK;
                }
                let r = RawPos { b, stm, cr: [false; 4], eps: None, hmc: 0, fmn: 1 };
                check_raw(ctx, &r);
            }
        }
    }
    // every kind: n white men of kind kw from a2 upwards, m black men of kind kb from h7 downwards
    // (pawns stay off the first and last rank); 15 + king = 16 is the limit, whatever the kind
    for &kw in &[P, N, B, R, Q] {
        for &kb in &[P, N, B, R, Q] {
            if kw == N && kb == N {
                continue; // done above
            }
            for n in 0..=17usize {
                for m in 0..=17usize {
                    for stm in 0..2u8 {
                        let mut b = [EMPTY; 64];
                        b[sq(4, 0)] = K;
                        b[sq(4, 7)] = K | BLACK;
                        for i in 0..n {
                            b[8 + i] = kw;
                        }
                        for i in 0..m {
                            b[55 - i] = kb | BLACK;
                        }
                        let r = RawPos { b, stm, cr: [false; 4], eps: None, hmc: 0, fmn: 1 };
                        check_raw(ctx, &r);
                    }
                }
            }
        }
    }
    // the same with pawns and queens mixed in (15 pawns/queens + king = 16, one more = 17)
    for extra in 0..3usize {
        for stm in 0..2u8 {
            let mut b = [EMPTY; 64];
            b[sq(4, 0)] = K;
            b[sq(4, 7)] = K | BLACK;
            for i in 0..8 {
                b[8 + i] = P;
                b[48 + i] = P | BLACK;
            }
            for i in 0..(6 + extra) {
                b[16 + i] = Q;
                b[40 + i] = Q | BLACK;
            }
            let r = RawPos { b, stm, cr: [false; 4], eps: None, hmc: 0, fmn: 1 };
            check_raw(ctx, &r);
        }
    }
}

/// idempotence and acceptance of every model-valid position of the standard universes
pub fn check_pos(ctx: &mut Ctx, p: &Pos, _b: &Board) {
    check_raw(ctx, &RawPos::from_pos(p));
}

pub fn run(run: &mut Run) {
    run.counter_names = NAMES;
    run.assumptions = vec![
        "reference model refchess: validate() returns the normal form or the SET of conditions that hold; any member of the set is an acceptable reported reason".into(),
    ];
    let thorough = run.thorough();
    let max = if thorough { 3 } else { 2 };
    run.par_shards(&format!("RAW(a) boards with <= {} occupied squares, 12 kinds, 2 sides, rights/mark variants", max), 64, |ctx, sh| raw_a(ctx, sh, max));
    run.par_shards("RAW(b) home squares x {.,K,R,k,r,N} x 16 rights x 2 sides", 6, |ctx, sh| raw_b(ctx, sh));
    run.par_shards("RAW(c) en-passant mark on every square x neighbourhood", 64, |ctx, sh| raw_c(ctx, sh));
    run.seq("RAW(d) men counts 0..17 of every kind per side (sixteen-men limit, more than eight pawns, many promoted pieces)", |ctx| raw_d(ctx));
    run.par_shards("RAW(g) ALIGNED: a king with up to eight enemy sliders aligned at distance 2, each blocked or not, either side to move", crate::universe::ALIGNED_SHARDS, |ctx, sh| {
        crate::universe::aligned(sh, &mut |r| check_raw(ctx, r));
    });
    run.par_shards("RAW(f) BACKRANK: king, rooks and queens on the back rank behind a full / nearly full / absent pawn rank, enemy king on the same rank or far", crate::universe::BACKRANK_SHARDS, |ctx, sh| {
        crate::universe::backrank(sh, &mut |r| check_raw(ctx, r));
    });
    // every valid position of the standard universes goes through acceptance + idempotence too
    let sel = Sel { m3: true, ep: Some(false), castle: Some(false), promo: Some(false), reach: Some(3), counters: true, multicheck: Some(if run.thorough() { 3 } else { 1 }), ..Default::default() };
    // here a model-valid position refused by owlchess is a violation, not a skip
    run_universes(run, &sel, DISAGREE, &check_pos);
    if run.total.cnt[DISAGREE] > 0 {
        run.total.violate(json!({"kind": "section", "universe": "standard universes"}), format!("{} model-valid positions are refused or altered by validation", run.total.cnt[DISAGREE]));
    }
}

pub fn replay(case: &Value, ctx: &mut Ctx) {
    match case["kind"].as_str() {
        Some("raw") => {
            if let Some(r) = rawpos_from_json(&case["raw"]) {
                check_raw(ctx, &r);
            }
        }
        _ => replay_pos(case, ctx, &check_pos),
    }
}
