//! C10 - UCI move text round-trips and is accepted exactly when such a move exists

use crate::bind::*;
use crate::engine::*;
use crate::model::text;
use crate::model::*;
use crate::props::common::*;
use owlchess::moves::make::{Make, Uci};
use owlchess::moves::uci;
use owlchess::{Board, Move};
use serde_json::{json, Value};
use std::sync::OnceLock;

pub const NAMES: &[&str] = &[
    "round_trips",
    "strings_tried",
    "accepted_semilegal",
    "accepted_legal",
    "castling_round_trips",
    "ep_round_trips",
    "promotion_round_trips",
    "null_refusals",
    "full_string_scans",
    "model_impl_validity_disagreements",
];
const RT: usize = 0;
const STR: usize = 1;
const ASEMI: usize = 2;
const ALEGAL: usize = 3;
const CASTLE: usize = 4;
const EPR: usize = 5;
const PROMO: usize = 6;
const NULLS: usize = 7;
const FULLSCAN: usize = 8;
const DISAGREE: usize = 9;

/// all 20,480 strings [a-h][1-8][a-h][1-8][nbrq]? as (text, from, to, promo)
pub fn all_uci() -> &'static Vec<(String, u8, u8, u8)> {
    static U: OnceLock<Vec<(String, u8, u8, u8)>> = OnceLock::new();
    U.get_or_init(|| {
        let mut v = Vec::new();
        for f in 0..64usize {
            for t in 0..64usize {
                for pr in [0u8, N, B, R, Q] {
                    let mut s = text::sq_name(f);
                    s.push_str(&text::sq_name(t));
                    if pr != 0 {
                        s.push(text::promo_char(pr));
                    }
                    v.push((s, f as u8, t as u8, pr));
                }
            }
        }
        v
    })
}

#[allow(clippy::too_many_arguments)]
fn check_string(ctx: &mut Ctx, p: &Pos, b: &Board, s: &str, f: u8, t: u8, pr: u8, pseudo: &[Mv], legal: &[bool], with_make: bool) {
    ctx.add(STR, 1);
    ctx.transitions += 1;
    let cand = (0..pseudo.len()).find(|&i| pseudo[i].from == f && pseudo[i].to == t && pseudo[i].promo == pr);
    let want_semi = cand.is_some();
    let want_legal = cand.map(|i| legal[i]).unwrap_or(false);
    let gs = Move::from_uci_semilegal(s, b);
    let gl = Move::from_uci_legal(s, b);
    if gs.is_ok() != want_semi {
        ctx.violate(
            json!({"kind": "pos", "fen": text::fen(p), "what": "from_uci_semilegal", "text": s}),
            format!("from_uci_semilegal(`{}`) accepted={} but a pseudo-legal move with that source, destination and promotion exists={}", s, gs.is_ok(), want_semi),
        );
    }
    if gl.is_ok() != want_legal {
        ctx.violate(
            json!({"kind": "pos", "fen": text::fen(p), "what": "from_uci_legal", "text": s}),
            format!("from_uci_legal(`{}`) accepted={} but a legal move with that source, destination and promotion exists={}", s, gl.is_ok(), want_legal),
        );
    }
    if want_semi {
        ctx.add(ASEMI, 1);
        let m = pseudo[cand.unwrap()];
        if let Ok(g) = &gs {
            if key_of_move(g) != key_of_mv(p, m) {
                ctx.violate(json!({"kind": "pos", "fen": text::fen(p), "what": "from_uci_semilegal value", "text": s}), format!("from_uci_semilegal(`{}`) returned {:?}, expected the move {:?}", s, g, m));
            }
        }
        if want_legal {
            ctx.add(ALEGAL, 1);
            if let Ok(g) = &gl {
                if key_of_move(g) != key_of_mv(p, m) {
                    ctx.violate(json!({"kind": "pos", "fen": text::fen(p), "what": "from_uci_legal value", "text": s}), format!("from_uci_legal(`{}`) returned {:?}, expected the move {:?}", s, g, m));
                }
            }
        }
    }
    // make::Uci applies exactly the legal ones (on the full scans and for every existing move)
    if !with_make && !want_semi {
        return;
    }
    let mk = Uci(s).make(b);
    if mk.is_ok() != want_legal {
        ctx.violate(json!({"kind": "pos", "fen": text::fen(p), "what": "Uci(str).make", "text": s}), format!("Uci(`{}`).make accepted={} but legal={}", s, mk.is_ok(), want_legal));
    }
}

pub fn check_pos_opt(ctx: &mut Ctx, p: &Pos, b: &Board, full_scan: bool) {
    check_pos_mode(ctx, p, b, if full_scan { 2 } else { 1 })
}

pub fn check_pos_rt(ctx: &mut Ctx, p: &Pos, b: &Board) {
    check_pos_mode(ctx, p, b, 0)
}

pub fn check_pos_noprobe(ctx: &mut Ctx, p: &Pos, b: &Board) {
    check_pos_mode(ctx, p, b, 3)
}

pub fn check_pos_own(ctx: &mut Ctx, p: &Pos, b: &Board) {
    check_pos_mode(ctx, p, b, 4)
}

/// mode 0: round trips + null; 1: + strings of occupied sources and one empty probe; 2: + all
/// strings; 3: like 1 without the empty probe and, for sources that hold no pawn, without the
/// suffixes n, b and r (q stands for all four there; the full scans keep them); 4: strings whose source holds a man of the side to
/// move, plus the lowest enemy-held square as a probe
pub fn check_pos_mode(ctx: &mut Ctx, p: &Pos, b: &Board, mode: u8) {
    let full_scan = mode == 2;
    ctx.states += 1;
    let pseudo = p.pseudo_vec();
    let legal: Vec<bool> = pseudo.iter().map(|&m| p.is_legal(m)).collect();
    // round trip of every semilegal move
    for &m in &pseudo {
        ctx.transitions += 1;
        ctx.traces += 1;
        ctx.add(RT, 1);
        match m.flag {
            2 => ctx.add(EPR, 1),
            3 | 4 => ctx.add(CASTLE, 1),
            _ => {}
        }
        if m.promo != 0 {
            ctx.add(PROMO, 1);
        }
        let Ok(mv) = to_move(p, m) else {
            ctx.violate(case_pos_mv(p, "Move::new", m), "model move refused by Move::new".into());
            continue;
        };
        let s = mv.to_string();
        let want = text::uci(m);
        if s != want || mv.uci().to_string() != want {
            ctx.violate(case_pos_mv(p, "Move::to_string", m), format!("UCI text `{}` but coordinate notation is `{}`", s, want));
        }
        match Move::from_uci(&s, b) {
            Ok(back) if back == mv => {}
            other => ctx.violate(case_pos_mv(p, "from_uci(to_string)", m), format!("reading `{}` back gives {:?}, not the move {:?}", s, other, mv)),
        }
        match s.parse::<uci::Move>() {
            Ok(u) if u == mv.uci() && u.into_move(b) == Ok(mv) => {}
            other => ctx.violate(case_pos_mv(p, "uci::Move round trip", m), format!("uci::Move round trip of `{}` gives {:?}", s, other)),
        }
    }
    // acceptance
    let u = all_uci();
    if full_scan {
        ctx.add(FULLSCAN, 1);
        for (s, f, t, pr) in u.iter() {
            check_string(ctx, p, b, s, *f, *t, *pr, &pseudo, &legal, true);
        }
    } else if mode == 4 {
        let probe = (0..64usize).find(|&f| p.b[f] != EMPTY && colour(p.b[f]) != p.stm);
        for f in 0..64usize {
            if (p.b[f] == EMPTY || colour(p.b[f]) != p.stm) && Some(f) != probe {
                continue;
            }
            for i in 0..320 {
                let (s, ff, t, pr) = &u[f * 320 + i];
                if (*pr == B || *pr == R || *pr == N) && kind(p.b[f]) != P {
                    continue; // non-pawn sources: the suffix q stands for all four
                }
                check_string(ctx, p, b, s, *ff, *t, *pr, &pseudo, &legal, false);
            }
        }
    } else if mode == 1 || mode == 3 {
        // strings whose source square is occupied, plus the lowest empty square as a probe
        // (an empty source is refused before anything else is looked at)
        let probe = if mode == 3 { None } else { (0..64usize).find(|&f| p.b[f] == EMPTY) };
        for f in 0..64usize {
            if p.b[f] == EMPTY && Some(f) != probe {
                continue;
            }
            for i in 0..320 {
                let (s, ff, t, pr) = &u[f * 320 + i];
                if mode == 3 && (*pr == B || *pr == R || *pr == N) && p.b[f] != EMPTY && kind(p.b[f]) != P {
                    continue;
                }
                check_string(ctx, p, b, s, *ff, *t, *pr, &pseudo, &legal, false);
            }
        }
    }
    // the null move is never a move to play
    ctx.add(NULLS, 1);
    if Move::from_uci_semilegal("0000", b).is_ok() || Move::from_uci_legal("0000", b).is_ok() {
        ctx.violate(case_pos(p, "null from_uci_*"), "`0000` accepted by a checking reader".into());
    }
    if Uci("0000").make(b).is_ok() || uci::Move::Null.make(b).is_ok() {
        ctx.violate(case_pos(p, "null make"), "`0000` accepted as a move to play".into());
    }
    if Move::from_uci("0000", b) != Ok(Move::NULL) {
        ctx.violate(case_pos(p, "null from_uci"), "`0000` does not read as the null move".into());
    }
    if ctx.samples.is_empty() {
        ctx.samples.push(json!({"fen": text::fen(p), "semilegal_uci": pseudo.iter().map(|&m| text::uci(m)).collect::<Vec<_>>()}));
    }
}

pub fn check_pos(ctx: &mut Ctx, p: &Pos, b: &Board) {
    check_pos_opt(ctx, p, b, false)
}

pub fn check_pos_full(ctx: &mut Ctx, p: &Pos, b: &Board) {
    check_pos_opt(ctx, p, b, true)
}

pub fn run(run: &mut Run) {
    run.counter_names = NAMES;
    run.assumptions = vec!["reference model refchess: pseudo-legal / legal lookup by (source, destination, promotion); independent UCI writer".into()];
    let thorough = run.thorough();
    // all 20,480 strings on every state within 2 plies of the seeds and on COUNTERS
    let selfull = Sel { reach: Some(2), ..Default::default() };
    run.notes.push("full scans: all 20,480 syntactically valid strings + 0000 on every REACH(2) state; elsewhere all strings whose source square is occupied plus those of the lowest empty square".into());
    run_universes(run, &selfull, DISAGREE, &check_pos_full);
    let sel = if thorough {
        Sel { m3: true, ep: Some(true), castle: Some(true), promo: Some(true), reach: Some(3), pin2: Some(4), multicheck: Some(3), checkpin: Some(3), castle2: true, hemmed: true, counts: true, promorow: true, hist: Some((3, 2)), ..Default::default() }
    } else {
        Sel { ep: Some(false), ep_spread_only: true, castle: Some(false), promo: Some(false), ..Default::default() }
    };
    run_universes(run, &sel, DISAGREE, &check_pos);
    if !thorough {
        // the largest family: occupied-source strings without the empty-source probe
        let big = Sel { pin2: Some(2), ..Default::default() };
        run_universes(run, &big, DISAGREE, &check_pos_noprobe);
        let m3 = Sel { m3: true, ..Default::default() };
        run_universes(run, &m3, DISAGREE, &check_pos_own);
        // six-men king-zone families: strings whose source holds a man of the side to move
        let kz = Sel { multicheck: Some(1), checkpin: Some(1), castle2: true, hemmed: true, counts: true, promorow: true, ..Default::default() };
        run_universes(run, &kz, DISAGREE, &check_pos_own);
    }
    // round trips of every semilegal move (and the null refusals) on the deeper REACH tier
    let selrt = Sel { reach: Some(if thorough { 4 } else { 3 }), ..Default::default() };
    run.notes.push("the deepest REACH tier checks the write/read round trip of every semilegal move only".into());
    run_universes(run, &selrt, DISAGREE, &check_pos_rt);
}

pub fn replay(case: &Value, ctx: &mut Ctx) {
    replay_pos(case, ctx, &check_pos_full);
}
