//! C07 - the outcome of a position is classified exactly

use crate::bind::*;
use crate::engine::*;
use crate::model::text;
use crate::model::*;
use crate::props::common::*;
use owlchess::movegen::legal;
use owlchess::{Board, DrawReason, Outcome};
use serde_json::{json, Value};

pub const NAMES: &[&str] = &[
    "tier_none",
    "tier_claimable",
    "tier_mandatory",
    "tier_forced",
    "checkmates",
    "stalemates",
    "insufficient",
    "moves75",
    "moves50",
    "two_reasons_apply",
    "only_pseudo_legal_is_illegal_ep",
    "model_impl_validity_disagreements",
];
const T0: usize = 0;
const MATE: usize = 4;
const STALE: usize = 5;
const INSUF: usize = 6;
const M75: usize = 7;
const M50: usize = 8;
const TWO: usize = 9;
const ONLYEP: usize = 10;
const DISAGREE: usize = 11;

pub const CLOCKS: [u32; 8] = [0, 99, 100, 101, 149, 150, 151, 65535];

fn check_one(ctx: &mut Ctx, p: &Pos, b: &Board) {
    ctx.states += 1;
    ctx.transitions += 1;
    ctx.traces += 1;
    let (tier, reasons) = outcomes(p, 1);
    ctx.add(T0 + tier as usize, 1);
    for r in &reasons {
        match r {
            MOut::Mate(_) => ctx.add(MATE, 1),
            MOut::Stalemate => ctx.add(STALE, 1),
            MOut::Insufficient => ctx.add(INSUF, 1),
            MOut::Moves75 => ctx.add(M75, 1),
            MOut::Moves50 => ctx.add(M50, 1),
            _ => {}
        }
    }
    if reasons.len() > 1 {
        ctx.add(TWO, 1);
    }
    let got = b.calc_outcome();
    let ok = match got {
        None => tier == 0,
        Some(o) => match mout_of(&o) {
            Some(mo) => mo.tier() == tier && reasons.contains(&mo),
            None => false,
        },
    };
    if !ok {
        ctx.violate(case_pos(p, "calc_outcome"), format!("calc_outcome = {:?} but the rules give tier {} with applicable reasons {:?}", got, tier, reasons));
    }
    // calc_draw_simple: the material / clock draws only, same tiers
    let mut dr: Vec<MOut> = Vec::new();
    if insufficient_material(p) {
        dr.push(MOut::Insufficient);
    }
    if p.hmc >= 150 {
        dr.push(MOut::Moves75);
    }
    if dr.is_empty() && p.hmc >= 100 {
        dr.push(MOut::Moves50);
    }
    let gd = b.calc_draw_simple();
    let okd = match gd {
        None => dr.is_empty(),
        Some(d) => mout_of(&Outcome::Draw(d)).map(|m| dr.contains(&m)).unwrap_or(false),
    };
    if !okd {
        ctx.violate(case_pos(p, "calc_draw_simple"), format!("calc_draw_simple = {:?} but the applicable draws of the highest tier are {:?}", gd, dr));
    }
    if matches!(gd, Some(DrawReason::Stalemate)) {
        ctx.violate(case_pos(p, "calc_draw_simple"), "calc_draw_simple returned stalemate".into());
    }
    let ml = p.legal();
    let has = b.has_legal_moves();
    if has != !ml.is_empty() {
        ctx.violate(case_pos(p, "has_legal_moves"), format!("has_legal_moves = {} but the legal move set has {} members", has, ml.len()));
    }
    if has != !legal::gen_all(b).is_empty() {
        ctx.violate(case_pos(p, "has_legal_moves vs gen_all"), "has_legal_moves disagrees with legal::gen_all".into());
    }
    if b.is_check() != p.in_check(p.stm) {
        ctx.violate(case_pos(p, "is_check"), format!("is_check = {} but the rules say {}", b.is_check(), p.in_check(p.stm)));
    }
    if ml.is_empty() {
        let ps = p.pseudo_vec();
        if !ps.is_empty() && ps.iter().all(|m| m.flag == 2) {
            ctx.add(ONLYEP, 1);
        }
    }
    if ctx.samples.len() < 3 && tier > 0 && ctx.samples.iter().all(|s| s["tier"] != json!(tier)) {
        ctx.samples.push(json!({"fen": text::fen(p), "tier": tier, "applicable": format!("{:?}", reasons), "calc_outcome": format!("{:?}", got)}));
    }
}

pub fn check_pos(ctx: &mut Ctx, p: &Pos, b: &Board) {
    check_one(ctx, p, b);
    // the same placement at every clock value around the thresholds
    for &c in &CLOCKS {
        if c == p.hmc {
            continue;
        }
        let mut q = *p;
        q.hmc = c;
        match board_of(&q) {
            Some(bq) => check_one(ctx, &q, &bq),
            None => ctx.add(DISAGREE, 1),
        }
    }
}

pub fn check_pos_single(ctx: &mut Ctx, p: &Pos, b: &Board) {
    check_one(ctx, p, b);
}

pub fn run(run: &mut Run) {
    run.counter_names = NAMES;
    run.assumptions = vec![
        "reference model refchess: legal(), in_check(), insufficient material by counting men and square colours".into(),
        "any applicable reason of the highest applicable tier is accepted".into(),
    ];
    let thorough = run.thorough();
    let sel = if thorough {
        Sel { m3: true, ep: Some(true), reach: Some(3), castle: Some(false), promo: Some(false), multicheck: Some(3), checkpin: Some(3), castle2: true, hemmed: true, aligned: true, counts: true, promorow: true, backrank: true, boxk: Some(2), hist: Some((3, 2)), ..Default::default() }
    } else {
        Sel { m3: true, ep: Some(false), reach: Some(3), multicheck: Some(2), checkpin: Some(1), castle2: true, hemmed: true, aligned: true, counts: true, promorow: true, backrank: true, boxk: Some(1), hist: Some((3, 0)), ..Default::default() }
    };
    run_universes(run, &sel, DISAGREE, &check_pos);
    // MATERIAL carries its own clocks
    let selm = Sel { material: Some(vec![0, 99, 100, 149, 150, 65535]), m4_corner: if thorough { None } else { Some(7) }, clocks: true, ..Default::default() };
    run_universes(run, &selm, DISAGREE, &check_pos_single);
    if thorough {
        let sel4 = Sel { m4: Some(crate::universe::M4_SHARDS), ..Default::default() };
        run.notes.push("M4 is explored at clock 0 and 100 only".into());
        run_universes(run, &sel4, DISAGREE, &|ctx, p, b| {
            check_one(ctx, p, b);
            let mut q = *p;
            q.hmc = 100;
            if let Some(bq) = board_of(&q) {
                check_one(ctx, &q, &bq);
            }
        });
    }
}

pub fn replay(case: &Value, ctx: &mut Ctx) {
    replay_pos(case, ctx, &check_pos_single);
}
