//! C20 - core value types convert losslessly and bitboards behave as sets of squares

use crate::engine::*;
use owlchess::moves::PromotePiece;
use owlchess::{Bitboard, CastlingRights, CastlingSide, Cell, Color, Coord, File, MoveKind, Piece, Rank};
use owlchess_base::{bitboard_consts, geometry};
use serde_json::{json, Value};
use std::collections::BTreeSet;

pub const NAMES: &[&str] = &[
    "chars_tried",
    "strings_tried",
    "index_round_trips",
    "constructor_probes",
    "rejected_indices",
    "bitboard_sets",
    "bitboard_binary_pairs",
    "deposit_cases",
    "shift_cases",
    "constant_memberships",
];
const CHARS: usize = 0;
const STRS: usize = 1;
const IDX: usize = 2;
const CTOR: usize = 3;
const REJ: usize = 4;
const BBSETS: usize = 5;
const BBPAIRS: usize = 6;
const DEPOSIT: usize = 7;
const SHIFT: usize = 8;
const CONSTS: usize = 9;

macro_rules! ensure {
    ($ctx:expr, $cond:expr, $sect:expr, $($arg:tt)*) => {
        if !($cond) {
            $ctx.violate(json!({"kind": "types", "section": $sect}), format!($($arg)*));
        }
    };
}

// geometry of owlchess's documented numbering: index = rank_index * 8 + file_index, rank index 0
// is the 8th rank; expressed here with plain integers
fn fidx(i: usize) -> usize {
    i % 8
}
fn ridx(i: usize) -> usize {
    i / 8
}

fn section_index(ctx: &mut Ctx) {
    let s = "index";
    for i in 0..8usize {
        ctx.states += 1;
        ctx.add(IDX, 2);
        let f = File::from_index(i);
        ensure!(ctx, f.index() == i, s, "File::from_index({}).index() = {}", i, f.index());
        ensure!(ctx, f.as_char() == (b'a' + i as u8) as char, s, "File {} as_char {}", i, f.as_char());
        ensure!(ctx, f.to_string() == f.as_char().to_string(), s, "File Display");
        ensure!(ctx, File::from_char(f.as_char()) == Some(f), s, "File char round trip {}", i);
        ensure!(ctx, unsafe { File::from_index_unchecked(i) } == f, s, "File::from_index_unchecked({})", i);
        let r = Rank::from_index(i);
        ensure!(ctx, unsafe { Rank::from_index_unchecked(i) } == r, s, "Rank::from_index_unchecked({})", i);
        ensure!(ctx, r.index() == i, s, "Rank::from_index({}).index() = {}", i, r.index());
        // rank index 0 is the 8th rank
        ensure!(ctx, r.as_char() == (b'8' - i as u8) as char, s, "Rank {} as_char {}", i, r.as_char());
        ensure!(ctx, r.to_string() == r.as_char().to_string(), s, "Rank Display");
        ensure!(ctx, Rank::from_char(r.as_char()) == Some(r), s, "Rank char round trip {}", i);
    }
    ensure!(ctx, File::iter().map(|f| f.index()).collect::<Vec<_>>() == (0..8).collect::<Vec<_>>(), s, "File::iter order");
    ensure!(ctx, Rank::iter().map(|f| f.index()).collect::<Vec<_>>() == (0..8).collect::<Vec<_>>(), s, "Rank::iter order");
    ensure!(ctx, [File::A, File::B, File::C, File::D, File::E, File::F, File::G, File::H].iter().map(|f| f.index()).collect::<Vec<_>>() == (0..8).collect::<Vec<_>>(), s, "named files");
    ensure!(ctx, [Rank::R8, Rank::R7, Rank::R6, Rank::R5, Rank::R4, Rank::R3, Rank::R2, Rank::R1].iter().map(|f| f.index()).collect::<Vec<_>>() == (0..8).collect::<Vec<_>>(), s, "named ranks");
    for i in 0..64usize {
        ctx.states += 1;
        ctx.add(IDX, 1);
        let c = Coord::from_index(i);
        ensure!(ctx, c.index() == i, s, "Coord::from_index({}).index()", i);
        ensure!(ctx, unsafe { Coord::from_index_unchecked(i) } == c, s, "Coord::from_index_unchecked({})", i);
        // add_unchecked on every delta whose result stays on the board (its whole safe domain)
        for j in 0..64usize {
            let d = j as isize - i as isize;
            let got = unsafe { c.add_unchecked(d) };
            ensure!(ctx, got.index() == j && got == c.add(d), s, "Coord {}.add_unchecked({}) = {}", i, d, got.index());
        }
        ensure!(ctx, c.file().index() == fidx(i) && c.rank().index() == ridx(i), s, "Coord {} file/rank", i);
        ensure!(ctx, Coord::from_parts(c.file(), c.rank()) == c, s, "Coord::from_parts round trip {}", i);
        let txt = format!("{}{}", (b'a' + fidx(i) as u8) as char, (b'8' - ridx(i) as u8) as char);
        ensure!(ctx, c.to_string() == txt, s, "Coord {} Display `{}` expected `{}`", i, c, txt);
        ensure!(ctx, txt.parse::<Coord>() == Ok(c), s, "Coord parse `{}`", txt);
        ensure!(ctx, c.flipped_rank().index() == (7 - ridx(i)) * 8 + fidx(i), s, "Coord {} flipped_rank", i);
        ensure!(ctx, c.flipped_file().index() == ridx(i) * 8 + 7 - fidx(i), s, "Coord {} flipped_file", i);
        ensure!(ctx, c.diag() == fidx(i) + ridx(i), s, "Coord {} diag", i);
        ensure!(ctx, c.antidiag() == 7 - ridx(i) + fidx(i), s, "Coord {} antidiag", i);
        ensure!(ctx, format!("{:?}", c) == format!("Coord({})", txt), s, "Coord Debug");
    }
    ensure!(ctx, Coord::iter().map(|c| c.index()).collect::<Vec<_>>() == (0..64).collect::<Vec<_>>(), s, "Coord::iter order");
    for i in 0..6usize {
        ctx.states += 1;
        ctx.add(IDX, 1);
        ensure!(ctx, Piece::from_index(i).index() == i, s, "Piece index {}", i);
    }
    ensure!(ctx, [Piece::Pawn, Piece::King, Piece::Knight, Piece::Bishop, Piece::Rook, Piece::Queen].iter().map(|p| p.index()).collect::<Vec<_>>() == (0..6).collect::<Vec<_>>(), s, "named pieces");
    ensure!(ctx, Piece::iter().map(|p| p.index()).collect::<Vec<_>>() == (0..6).collect::<Vec<_>>(), s, "Piece::iter");
    ensure!(ctx, Piece::COUNT == 6 && Cell::COUNT == 13, s, "COUNT constants");
    let spell = ".PKNBRQpknbrq";
    for i in 0..13usize {
        ctx.states += 1;
        ctx.add(IDX, 1);
        let c = Cell::from_index(i);
        ensure!(ctx, c.index() == i, s, "Cell index {}", i);
        let ch = spell.as_bytes()[i] as char;
        ensure!(ctx, c.as_char() == ch && c.to_string() == ch.to_string(), s, "Cell {} as_char `{}` expected `{}`", i, c.as_char(), ch);
        ensure!(ctx, Cell::from_char(ch) == Some(c), s, "Cell from_char `{}`", ch);
        let uch = ".\u{2659}\u{2654}\u{2658}\u{2657}\u{2656}\u{2655}\u{265f}\u{265a}\u{265e}\u{265d}\u{265c}\u{265b}".chars().nth(i).unwrap();
        ensure!(ctx, c.as_utf8_char() == uch, s, "Cell {} as_utf8_char `{}` expected `{}`", i, c.as_utf8_char(), uch);
        ensure!(ctx, ch.to_string().parse::<Cell>() == Ok(c), s, "Cell parse `{}`", ch);
        if i == 0 {
            ensure!(ctx, c == Cell::EMPTY && c.is_free() && !c.is_occupied() && c.color().is_none() && c.piece().is_none(), s, "empty cell");
        } else {
            let col = if i <= 6 { Color::White } else { Color::Black };
            let p = Piece::from_index((i - 1) % 6);
            ensure!(ctx, c.color() == Some(col) && c.piece() == Some(p) && c.is_occupied() && !c.is_free(), s, "Cell {} parts", i);
            ensure!(ctx, Cell::from_parts(col, p) == c, s, "Cell::from_parts {}", i);
            ensure!(ctx, ch.is_ascii_uppercase() == (col == Color::White), s, "Cell {} letter case", i);
        }
    }
    ensure!(ctx, Cell::iter().map(|c| c.index()).collect::<Vec<_>>() == (0..13).collect::<Vec<_>>(), s, "Cell::iter");
    for (c, ch, long) in [(Color::White, 'w', "white"), (Color::Black, 'b', "black")] {
        ctx.states += 1;
        ensure!(ctx, c.as_char() == ch && c.to_string() == ch.to_string() && c.as_long_str() == long, s, "Color text");
        ensure!(ctx, Color::from_char(ch) == Some(c) && ch.to_string().parse::<Color>() == Ok(c), s, "Color parse");
        ensure!(ctx, c.inv() != c && c.inv().inv() == c, s, "Color inv");
    }
    // castling rights as sets of (colour, side)
    let all = [(Color::White, CastlingSide::King, 'K'), (Color::White, CastlingSide::Queen, 'Q'), (Color::Black, CastlingSide::King, 'k'), (Color::Black, CastlingSide::Queen, 'q')];
    for i in 0..16usize {
        ctx.states += 1;
        ctx.add(IDX, 1);
        let r = CastlingRights::from_index(i);
        ensure!(ctx, r.index() == i, s, "CastlingRights index {}", i);
        // build the same value from its members and check every accessor
        let members: Vec<_> = all.iter().filter(|(c, sd, _)| r.has(*c, *sd)).collect();
        let mut built = CastlingRights::EMPTY;
        for (c, sd, _) in &members {
            built.set(*c, *sd);
        }
        ensure!(ctx, built == r, s, "CastlingRights {} rebuilt from members", i);
        let txt: String = if members.is_empty() { "-".into() } else { members.iter().map(|m| m.2).collect() };
        ensure!(ctx, r.to_string() == txt, s, "CastlingRights {} Display `{}` expected `{}`", i, r, txt);
        ensure!(ctx, txt.parse::<CastlingRights>() == Ok(r), s, "CastlingRights parse `{}`", txt);
        for (c, sd, _) in &all {
            let w = r.with(*c, *sd);
            let wo = r.without(*c, *sd);
            ensure!(ctx, w.has(*c, *sd) && !wo.has(*c, *sd), s, "with/without membership");
            for (c2, sd2, _) in &all {
                if (c2, sd2) != (c, sd) {
                    ensure!(ctx, w.has(*c2, *sd2) == r.has(*c2, *sd2) && wo.has(*c2, *sd2) == r.has(*c2, *sd2), s, "with/without touches another right");
                }
            }
            let mut u = r;
            u.unset(*c, *sd);
            ensure!(ctx, u == wo, s, "unset = without");
        }
        for c in [Color::White, Color::Black] {
            ensure!(ctx, r.has_color(c) == (r.has(c, CastlingSide::King) || r.has(c, CastlingSide::Queen)), s, "has_color");
            let mut u = r;
            u.unset_color(c);
            ensure!(ctx, !u.has_color(c) && u.has_color(c.inv()) == r.has_color(c.inv()) && u.has(c.inv(), CastlingSide::King) == r.has(c.inv(), CastlingSide::King) && u.has(c.inv(), CastlingSide::Queen) == r.has(c.inv(), CastlingSide::Queen), s, "unset_color");
        }
    }
    ensure!(ctx, CastlingRights::EMPTY.index() == 0 && CastlingRights::FULL == CastlingRights::from_index(15) && all.iter().all(|(c, sd, _)| CastlingRights::FULL.has(*c, *sd)), s, "EMPTY/FULL");
    // move kinds and promotion pieces
    let promos = [(PromotePiece::Knight, Piece::Knight, MoveKind::PromoteKnight), (PromotePiece::Bishop, Piece::Bishop, MoveKind::PromoteBishop), (PromotePiece::Rook, Piece::Rook, MoveKind::PromoteRook), (PromotePiece::Queen, Piece::Queen, MoveKind::PromoteQueen)];
    for (pp, p, k) in promos {
        ctx.states += 1;
        ensure!(ctx, Piece::from(pp) == p && PromotePiece::try_from(p) == Ok(pp) && MoveKind::from(pp) == k && PromotePiece::try_from(k) == Ok(pp) && k.promote() == Some(p), s, "promotion conversions {:?}", pp);
    }
    for p in [Piece::Pawn, Piece::King] {
        ensure!(ctx, PromotePiece::try_from(p).is_err(), s, "pawn/king are not promotion pieces");
    }
    for k in [MoveKind::Null, MoveKind::Simple, MoveKind::CastlingKingside, MoveKind::CastlingQueenside, MoveKind::PawnDouble, MoveKind::Enpassant] {
        ensure!(ctx, k.promote().is_none() && PromotePiece::try_from(k).is_err(), s, "{:?} is not a promotion", k);
    }
    ensure!(ctx, MoveKind::from(CastlingSide::King) == MoveKind::CastlingKingside && MoveKind::from(CastlingSide::Queen) == MoveKind::CastlingQueenside && CastlingSide::try_from(MoveKind::CastlingKingside) == Ok(CastlingSide::King) && CastlingSide::try_from(MoveKind::CastlingQueenside) == Ok(CastlingSide::Queen) && CastlingSide::try_from(MoveKind::Simple).is_err(), s, "castling side conversions");
    for p in Piece::iter() {
        ensure!(ctx, MoveKind::Simple.matches_piece(p) && !MoveKind::Null.matches_piece(p), s, "matches_piece simple/null");
        for k in [MoveKind::PawnDouble, MoveKind::Enpassant, MoveKind::PromoteKnight, MoveKind::PromoteBishop, MoveKind::PromoteRook, MoveKind::PromoteQueen] {
            ensure!(ctx, k.matches_piece(p) == (p == Piece::Pawn), s, "matches_piece pawn kinds");
        }
        for k in [MoveKind::CastlingKingside, MoveKind::CastlingQueenside] {
            ensure!(ctx, k.matches_piece(p) == (p == Piece::King), s, "matches_piece castling");
        }
    }
}

fn section_chars(ctx: &mut Ctx) {
    let s = "chars";
    let mut c = 0u32;
    while c <= 0x10FFFF {
        if let Some(ch) = char::from_u32(c) {
            ctx.states += 1;
            ctx.add(CHARS, 1);
            let wf = if ('a'..='h').contains(&ch) { Some(ch as usize - 'a' as usize) } else { None };
            ensure!(ctx, File::from_char(ch).map(|f| f.index()) == wf, s, "File::from_char({:?})", ch);
            let wr = if ('1'..='8').contains(&ch) { Some('8' as usize - ch as usize) } else { None };
            ensure!(ctx, Rank::from_char(ch).map(|f| f.index()) == wr, s, "Rank::from_char({:?})", ch);
            let wc = match ch {
                'w' => Some(Color::White),
                'b' => Some(Color::Black),
                _ => None,
            };
            ensure!(ctx, Color::from_char(ch) == wc, s, "Color::from_char({:?})", ch);
            let wcell = ".PKNBRQpknbrq".chars().position(|x| x == ch);
            ensure!(ctx, Cell::from_char(ch).map(|x| x.index()) == wcell, s, "Cell::from_char({:?}) = {:?}", ch, Cell::from_char(ch));
        }
        c += 1;
    }
}

fn section_strings(ctx: &mut Ctx) {
    let s = "strings";
    // every 0-, 1- and 2-byte ASCII string, and a few longer / non-ASCII ones
    let mut texts: Vec<String> = vec![String::new()];
    for a in 0..128u8 {
        texts.push((a as char).to_string());
        for b in 0..128u8 {
            let mut t = (a as char).to_string();
            t.push(b as char);
            texts.push(t);
        }
    }
    for extra in ["e4 ", " e4", "e44", "\u{e9}", "\u{e9}4", "e\u{e9}", "\u{20ac}", "\u{1f600}", "w ", "KQkq", "--"] {
        texts.push(extra.to_string());
    }
    for t in &texts {
        ctx.states += 1;
        ctx.add(STRS, 1);
        let b = t.as_bytes();
        let wc = if b.len() == 2 && (b'a'..=b'h').contains(&b[0]) && (b'1'..=b'8').contains(&b[1]) { Some((b'8' - b[1]) as usize * 8 + (b[0] - b'a') as usize) } else { None };
        let r = guarded(|| t.parse::<Coord>());
        ensure!(ctx, matches!(&r, Ok(x) if x.as_ref().ok().map(|c| c.index()) == wc), s, "Coord parse {:?} = {:?}, expected index {:?}", t, r, wc);
        let wcol = match t.as_str() {
            "w" => Some(Color::White),
            "b" => Some(Color::Black),
            _ => None,
        };
        let r = guarded(|| t.parse::<Color>());
        ensure!(ctx, matches!(&r, Ok(x) if x.as_ref().ok().cloned() == wcol), s, "Color parse {:?} = {:?}", t, r);
        let wcell = if t.chars().count() == 1 && t.len() == 1 { ".PKNBRQpknbrq".chars().position(|x| Some(x) == t.chars().next()) } else { None };
        let r = guarded(|| t.parse::<Cell>());
        ensure!(ctx, matches!(&r, Ok(x) if x.as_ref().ok().map(|c| c.index()) == wcell), s, "Cell parse {:?} = {:?}", t, r);
    }
    // long strings: no documented spelling is longer than four characters, so every run of one
    // symbol (lengths 5..=9 and around the powers of two up to 65537), alone, before and after a
    // valid spelling, is refused by every parser
    {
        let mut ks: Vec<usize> = vec![5, 6, 7, 8, 9];
        for e in [4u32, 5, 6, 7, 8, 10, 16] {
            ks.extend([(1usize << e) - 1, 1 << e, (1 << e) + 1]);
        }
        for sym in ["e", "4", "K", "q", "-", "w", "b", "P", ".", " ", "\u{0}", "\u{e9}"] {
            for &k in &ks {
                let run = sym.repeat(k);
                for stem in ["", "e4", "KQkq", "-", "w", "P", "Kq"] {
                    for t in [format!("{}{}", stem, run), format!("{}{}", run, stem)] {
                        ctx.states += 1;
                        ctx.add(STRS, 1);
                        let r = guarded(|| (t.parse::<Coord>().is_ok(), t.parse::<Color>().is_ok(), t.parse::<Cell>().is_ok(), t.parse::<CastlingRights>().is_ok()));
                        ensure!(ctx, r == Ok((false, false, false, false)), s, "a string of {} bytes ({:?} + {} x {:?}) is accepted or panics: (Coord, Color, Cell, CastlingRights) = {:?}", t.len(), stem, k, sym, r);
                    }
                }
            }
        }
    }
    // castling rights: all strings of length <= 5 over {K,Q,k,q,-,x}
    let alph = ['K', 'Q', 'k', 'q', '-', 'x'];
    for len in 0..=5u32 {
        for idx in 0..6usize.pow(len) {
            let mut t = String::new();
            let mut x = idx;
            for _ in 0..len {
                t.push(alph[x % 6]);
                x /= 6;
            }
            ctx.states += 1;
            ctx.add(STRS, 1);
            let got = guarded(|| t.parse::<CastlingRights>());
            let Ok(got) = got else {
                ctx.violate(json!({"kind": "types", "section": s}), format!("CastlingRights parse {:?} panicked", t));
                continue;
            };
            let letters_only = !t.is_empty() && t.chars().all(|c| "KQkq".contains(c));
            let distinct = t.chars().collect::<BTreeSet<_>>().len() == t.len();
            let canonical_order = {
                let pos: Vec<usize> = t.chars().filter_map(|c| "KQkq".find(c)).collect();
                pos.windows(2).all(|w| w[0] < w[1])
            };
            let want_value = |t: &str| {
                let mut r = CastlingRights::EMPTY;
                for c in t.chars() {
                    match c {
                        'K' => r.set(Color::White, CastlingSide::King),
                        'Q' => r.set(Color::White, CastlingSide::Queen),
                        'k' => r.set(Color::Black, CastlingSide::King),
                        'q' => r.set(Color::Black, CastlingSide::Queen),
                        _ => {}
                    }
                }
                r
            };
            if t == "-" {
                ensure!(ctx, got == Ok(CastlingRights::EMPTY), s, "CastlingRights parse `-` = {:?}", got);
            } else if letters_only && distinct && canonical_order {
                ensure!(ctx, got == Ok(want_value(&t)), s, "CastlingRights parse {:?} = {:?}", t, got);
            } else if letters_only && distinct {
                // letters out of FEN order: a permissive reader may accept them, but only with the right value
                if let Ok(v) = got {
                    ensure!(ctx, v == want_value(&t), s, "CastlingRights parse {:?} gives the wrong set {:?}", t, v);
                }
            } else {
                ensure!(ctx, got.is_err(), s, "CastlingRights parse {:?} accepted as {:?}", t, got);
            }
        }
    }
}

fn section_constructors(ctx: &mut Ctx) {
    let s = "constructors";
    let mut probes: Vec<usize> = (0..=300).collect();
    probes.extend([usize::MAX, usize::MAX - 1, usize::MAX / 2, 1 << 8, 1 << 16, 1 << 32, (1 << 32) + 3, 1 << 63]);
    // every 2^k + e (k = 9..=63, |e| <= 9) and its complement from the top
    for k in 9..=63u32 {
        for e in -9i128..=9 {
            if let Ok(v) = usize::try_from((1i128 << k) + e) {
                probes.push(v);
                probes.push(usize::MAX - v);
            }
        }
    }
    probes.sort();
    probes.dedup();
    for &i in &probes {
        ctx.states += 1;
        macro_rules! probe {
            ($name:literal, $limit:expr, $call:expr) => {{
                ctx.add(CTOR, 1);
                let ok = guarded(|| $call).is_ok();
                if !ok {
                    ctx.add(REJ, 1);
                }
                ensure!(ctx, ok == (i < $limit), s, "{}({}) accepted={} but the range is 0..{}", $name, i, ok, $limit);
            }};
        }
        probe!("File::from_index", 8, File::from_index(i).index());
        probe!("Rank::from_index", 8, Rank::from_index(i).index());
        probe!("Coord::from_index", 64, Coord::from_index(i).index());
        probe!("Piece::from_index", 6, Piece::from_index(i).index());
        probe!("Cell::from_index", 13, Cell::from_index(i).index());
        probe!("CastlingRights::from_index", 16, CastlingRights::from_index(i).index());
    }
    // Coord::add: checked, succeeds iff the sum is a square
    for i in 0..64usize {
        for d in -130isize..=130 {
            ctx.states += 1;
            ctx.add(CTOR, 1);
            let want = i as isize + d;
            let r = guarded(|| Coord::from_index(i).add(d).index());
            if (0..64).contains(&want) {
                ensure!(ctx, r == Ok(want as usize), s, "Coord({}).add({}) = {:?}", i, d, r);
            } else {
                ctx.add(REJ, 1);
                ensure!(ctx, r.is_err(), s, "Coord({}).add({}) = {:?} but the sum is off the board", i, d, r);
            }
        }
        let shift_case = |ctx: &mut Ctx, df: isize, dr: isize| {
            ctx.states += 1;
            ctx.add(SHIFT, 1);
            let (nf, nr) = (fidx(i) as i128 + df as i128, ridx(i) as i128 + dr as i128);
            let want = if (0..8).contains(&nf) && (0..8).contains(&nr) { Some((nr * 8 + nf) as usize) } else { None };
            let got = guarded(|| Coord::from_index(i).shift(df, dr).map(|c| c.index()));
            ensure!(ctx, got == Ok(want), s, "Coord({}).shift({}, {}) = {:?}, geometry says {:?}", i, df, dr, got, want);
        };
        for df in -8isize..=8 {
            for dr in -8isize..=8 {
                shift_case(ctx, df, dr);
            }
        }
        // far deltas: every s * 2^k + e (k = 3..=63, |e| <= 9, s = +-1) that fits an isize, and the
        // two extremes, against every near delta of the other coordinate; powers of two and
        // extremes against each other
        let far = far_deltas();
        for &big in far {
            for small in -8isize..=8 {
                shift_case(ctx, big, small);
                shift_case(ctx, small, big);
            }
        }
        let pow: Vec<isize> = far.iter().cloned().filter(|d| d.unsigned_abs().is_power_of_two() || *d == isize::MAX || *d == isize::MIN).collect();
        for &a in &pow {
            for &b in &pow {
                shift_case(ctx, a, b);
            }
        }
        // Coord::add with the far deltas: never a square
        for &d in far {
            ctx.states += 1;
            ctx.add(CTOR, 1);
            let want = i as i128 + d as i128;
            let r = guarded(|| Coord::from_index(i).add(d).index());
            if (0..64).contains(&want) {
                ensure!(ctx, r == Ok(want as usize), s, "Coord({}).add({}) = {:?}", i, d, r);
            } else {
                ctx.add(REJ, 1);
                ensure!(ctx, r.is_err(), s, "Coord({}).add({}) = {:?} but the sum is off the board", i, d, r);
            }
        }
    }
}

/// s * 2^k + e for k in 3..=63, e in -9..=9, s in {+1, -1}, as far as it fits an isize; plus the extremes
fn far_deltas() -> &'static Vec<isize> {
    static D: std::sync::OnceLock<Vec<isize>> = std::sync::OnceLock::new();
    D.get_or_init(|| {
        let mut v: Vec<isize> = vec![isize::MIN, isize::MAX];
        for k in 3..=63u32 {
            for e in -9i128..=9 {
                for sgn in [1i128, -1] {
                    let x = sgn * (1i128 << k) + e;
                    if let Ok(d) = isize::try_from(x) {
                        if !(-8..=8).contains(&d) {
                            v.push(d);
                        }
                    }
                }
            }
        }
        v.sort();
        v.dedup();
        v
    })
}

fn set_of(b: Bitboard) -> BTreeSet<u8> {
    (0..64u8).filter(|&i| b.as_raw() >> i & 1 != 0).collect()
}
fn bb_of(s: &BTreeSet<u8>) -> Bitboard {
    Bitboard::from_raw(s.iter().fold(0u64, |a, &i| a | 1 << i))
}

fn unary(ctx: &mut Ctx, raw: u64) {
    let s = "bitboard";
    ctx.states += 1;
    ctx.add(BBSETS, 1);
    let b = Bitboard::from_raw(raw);
    let m = set_of(b);
    ensure!(ctx, b.as_raw() == raw && u64::from(b) == raw && Bitboard::from(raw) == b, s, "raw round trip {:#x}", raw);
    ensure!(ctx, b.len() as usize == m.len() && b.is_empty() == m.is_empty() && b.is_nonempty() == !m.is_empty(), s, "len/is_empty of {:#x}", raw);
    let it: Vec<u8> = b.into_iter().map(|c| c.index() as u8).collect();
    ensure!(ctx, it == m.iter().cloned().collect::<Vec<_>>(), s, "ascending iteration of {:#x}: {:?}", raw, it);
    let comp: BTreeSet<u8> = (0..64u8).filter(|i| !m.contains(i)).collect();
    ensure!(ctx, set_of(!b) == comp, s, "complement of {:#x}", raw);
    let fr: BTreeSet<u8> = m.iter().map(|&i| (7 - i / 8) * 8 + i % 8).collect();
    ensure!(ctx, set_of(b.flipped_rank()) == fr, s, "flipped_rank of {:#x}", raw);
    let ff: BTreeSet<u8> = m.iter().map(|&i| (i / 8) * 8 + 7 - i % 8).collect();
    ensure!(ctx, set_of(b.flipped_file()) == ff, s, "flipped_file of {:#x}", raw);
    for k in [0usize, 1, 7, 8, 9, 63] {
        let l: BTreeSet<u8> = m.iter().filter_map(|&i| if (i as usize + k) < 64 { Some(i + k as u8) } else { None }).collect();
        let r: BTreeSet<u8> = m.iter().filter_map(|&i| if i as usize >= k { Some(i - k as u8) } else { None }).collect();
        ensure!(ctx, set_of(b.shl(k)) == l && set_of(b.shr(k)) == r, s, "shl/shr by {} of {:#x}", k, raw);
    }
    for i in [0u8, 1, 7, 8, 27, 36, 56, 62, 63].into_iter().chain(m.iter().cloned().take(3)) {
        let c = Coord::from_index(i as usize);
        ensure!(ctx, b.has(c) == m.contains(&i), s, "has({}) of {:#x}", i, raw);
        let mut w = m.clone();
        w.insert(i);
        let mut wo = m.clone();
        wo.remove(&i);
        ensure!(ctx, set_of(b.with(c)) == w && set_of(b.without(c)) == wo, s, "with/without({}) of {:#x}", i, raw);
        ensure!(ctx, b.with2(c.file(), c.rank()) == b.with(c) && b.without2(c.file(), c.rank()) == b.without(c), s, "with2/without2");
        let mut x = b;
        x.set(c);
        let mut y = b;
        y.unset(c);
        ensure!(ctx, x == b.with(c) && y == b.without(c), s, "set/unset({}) of {:#x}", i, raw);
    }
    // Display: eight groups of eight, rank 8 first, files a..h left to right
    let txt: String = (0..8).map(|r| (0..8).map(|f| if m.contains(&(r * 8 + f)) { '1' } else { '0' }).collect::<String>()).collect::<Vec<_>>().join("/");
    ensure!(ctx, b.to_string() == txt, s, "Display of {:#x}: `{}` expected `{}`", raw, b, txt);
}

fn binary(ctx: &mut Ctx, x: u64, y: u64) {
    let s = "bitboard";
    ctx.add(BBPAIRS, 1);
    ctx.transitions += 1;
    let (a, b) = (Bitboard::from_raw(x), Bitboard::from_raw(y));
    let (ma, mb) = (set_of(a), set_of(b));
    let un: BTreeSet<u8> = ma.union(&mb).cloned().collect();
    let inter: BTreeSet<u8> = ma.intersection(&mb).cloned().collect();
    let xor: BTreeSet<u8> = ma.symmetric_difference(&mb).cloned().collect();
    let ok = set_of(a | b) == un && set_of(a & b) == inter && set_of(a ^ b) == xor;
    let mut c = a;
    c |= b;
    let mut d = a;
    d &= b;
    let mut e = a;
    e ^= b;
    ensure!(ctx, ok && c == (a | b) && d == (a & b) && e == (a ^ b), s, "binary operations on {:#x}, {:#x}", x, y);
    ensure!(ctx, (a == b) == (ma == mb), s, "equality of {:#x}, {:#x}", x, y);
}

fn small_sets() -> Vec<u64> {
    // all sets of <= 2 squares
    let mut v = vec![0u64];
    for i in 0..64 {
        v.push(1 << i);
        for j in (i + 1)..64 {
            v.push(1 << i | 1 << j);
        }
    }
    v
}

fn section_bitboards(run: &mut Run) {
    // unary: all sets of <= 3 squares, their complements, all byte-confined sets in all 8 rows,
    // named constants and their pairwise unions / complements
    run.par_shards("BITBOARD unary (all sets of <=3 squares + complements, byte-confined sets, constants)", 64, |ctx, i| {
        if i == 0 {
            unary(ctx, 0);
            unary(ctx, u64::MAX);
            for row in 0..8 {
                for pat in 0..256u64 {
                    unary(ctx, pat << (8 * row));
                    unary(ctx, !(pat << (8 * row)));
                }
            }
            let mut consts: Vec<u64> = Vec::new();
            consts.extend(bitboard_consts::DIAG.iter().map(|b| b.as_raw()));
            consts.extend(bitboard_consts::ANTIDIAG.iter().map(|b| b.as_raw()));
            consts.extend(File::iter().map(|f| bitboard_consts::file(f).as_raw()));
            consts.extend(Rank::iter().map(|r| bitboard_consts::rank(r).as_raw()));
            consts.push(bitboard_consts::LIGHT_SQUARES.as_raw());
            consts.push(bitboard_consts::DARK_SQUARES.as_raw());
            for &a in &consts {
                unary(ctx, a);
                unary(ctx, !a);
                for &b in &consts {
                    unary(ctx, a | b);
                    binary(ctx, a, b);
                }
            }
        }
        unary(ctx, 1 << i);
        unary(ctx, !(1u64 << i));
        for j in (i + 1)..64 {
            unary(ctx, 1 << i | 1 << j);
            unary(ctx, !(1u64 << i | 1 << j));
            for k in (j + 1)..64 {
                unary(ctx, 1 << i | 1 << j | 1 << k);
                unary(ctx, !(1u64 << i | 1 << j | 1 << k));
            }
        }
        ctx.samples.push(json!({"bitboard": format!("{:#x}", 1u64 << i), "as_set": [i]}));
    });
    // binary: every pair of sets of <= 2 squares, and with complements on one side
    let ss = small_sets();
    let n = ss.len();
    run.par_shards("BITBOARD binary (pairs of sets of <=2 squares, one side also complemented)", n, |ctx, i| {
        ctx.states += 1;
        for &b in &ss {
            binary(ctx, ss[i], b);
            binary(ctx, ss[i], !b);
        }
    });
    // byte-confined pairs
    run.par_shards("BITBOARD binary (byte-confined sets, all 256 x 256 patterns in 4 row pairings)", 256, |ctx, a| {
        ctx.states += 1;
        for b in 0..256u64 {
            for (ra, rb) in [(0, 0), (0, 7), (3, 3), (7, 4)] {
                binary(ctx, (a as u64) << (8 * ra), b << (8 * rb));
            }
        }
    });
    // deposit_bits: all masks of <= 3 bits and all byte-confined masks x all relevant x
    run.par_shards("DEPOSIT (masks of <=3 bits, byte-confined masks, x all relevant values)", 64, |ctx, i| {
        let check = |ctx: &mut Ctx, mask: u64, x: u64| {
            ctx.states += 1;
            ctx.add(DEPOSIT, 1);
            // model: the k-th lowest square of the mask is in the result iff bit k of x is set
            let squares: Vec<u8> = (0..64u8).filter(|&b| mask >> b & 1 != 0).collect();
            let want: u64 = squares.iter().enumerate().filter(|(k, _)| *k < 64 && x >> k & 1 != 0).fold(0, |a, (_, &sq)| a | 1 << sq);
            let got = Bitboard::from_raw(mask).deposit_bits(x).as_raw();
            if got != want {
                ctx.violate(json!({"kind": "types", "section": "deposit"}), format!("deposit_bits(mask {:#x}, x {:#x}) = {:#x}, expected {:#x}", mask, x, got, want));
            }
        };
        for j in (i + 1)..64 {
            for k in (j + 1)..64 {
                let mask = 1u64 << i | 1 << j | 1 << k;
                for x in 0..16u64 {
                    check(ctx, mask, x);
                }
                check(ctx, mask, u64::MAX);
            }
            for x in 0..8u64 {
                check(ctx, 1u64 << i | 1 << j, x);
            }
        }
        for x in 0..4u64 {
            check(ctx, 1 << i, x);
            check(ctx, 0, x);
        }
        if i < 8 {
            for pat in 0..256u64 {
                let mask = pat << (8 * i);
                for x in 0..256u64 {
                    check(ctx, mask, x);
                }
                check(ctx, mask, u64::MAX);
                check(ctx, mask, 0x1_0000_0000);
            }
        }
        check(ctx, u64::MAX, 0xdead_beef_0123_4567 ^ (i as u64) << 17);
        check(ctx, u64::MAX, 1 << i);
        // wide masks spread over many rows: the rook-line and bishop-line masks of square i
        // (with and without the board edge) x every index below 2^bits (at most 2^14)
        let (f, r) = ((i % 8) as i32, (i / 8) as i32);
        let mut rook = 0u64;
        let mut bishop = 0u64;
        for t in 0..64i32 {
            let (tf, tr) = (t % 8, t / 8);
            if t as usize == i {
                continue;
            }
            if tf == f || tr == r {
                rook |= 1 << t;
            }
            if (tf - f).abs() == (tr - r).abs() {
                bishop |= 1 << t;
            }
        }
        let inner = 0x007e7e7e7e7e7e00u64;
        for mask in [rook, bishop, rook & inner, bishop & inner, rook | bishop] {
            let bits = mask.count_ones();
            let lim = 1u64 << bits.min(14);
            for x in 0..lim {
                check(ctx, mask, x);
            }
            check(ctx, mask, u64::MAX);
        }
    });
    // structured dense sets: a byte pattern replicated in every row, shifted and complemented
    run.par_shards("BITBOARD dense (replicated byte patterns, shifts, complements; unary + all pairs)", 256, |ctx, a| {
        let rep = |b: u64| b * 0x0101010101010101u64;
        let x = rep(a as u64);
        for v in [x, !x, x << 4, x >> 4, x.rotate_left(9), x ^ 0x00ff00ff00ff00ff, x & 0x0f0f0f0ff0f0f0f0] {
            unary(ctx, v);
        }
        for b in 0..256u64 {
            binary(ctx, x, rep(b));
            binary(ctx, x.rotate_left(9), !rep(b));
        }
    });
}

fn section_constants(ctx: &mut Ctx) {
    let s = "constants";
    for i in 0..64usize {
        let c = Coord::from_index(i);
        let (f, r) = (fidx(i), ridx(i));
        ctx.states += 1;
        ensure!(ctx, Bitboard::from_coord(c).as_raw() == 1 << i, s, "from_coord({})", i);
        for k in 0..8 {
            ctx.add(CONSTS, 2);
            ensure!(ctx, bitboard_consts::file(File::from_index(k)).has(c) == (f == k), s, "file({}) membership of {}", k, c);
            ensure!(ctx, bitboard_consts::rank(Rank::from_index(k)).has(c) == (r == k), s, "rank({}) membership of {}", k, c);
        }
        for d in 0..15 {
            ctx.add(CONSTS, 2);
            ensure!(ctx, bitboard_consts::DIAG[d].has(c) == (f + r == d), s, "DIAG[{}] membership of {}", d, c);
            ensure!(ctx, bitboard_consts::ANTIDIAG[d].has(c) == (7 - r + f == d), s, "ANTIDIAG[{}] membership of {}", d, c);
        }
        // a1 is a dark square: with rank index 0 = 8th rank, a8 (index 0) is light
        let light = (f + r) % 2 == 0;
        ctx.add(CONSTS, 2);
        ensure!(ctx, bitboard_consts::LIGHT_SQUARES.has(c) == light && bitboard_consts::DARK_SQUARES.has(c) == !light, s, "square colour of {}", c);
    }
    // named geometry
    let w = Color::White;
    let b = Color::Black;
    ctx.states += 1;
    ensure!(ctx, geometry::castling_rank(w) == Rank::R1 && geometry::castling_rank(b) == Rank::R8, s, "castling_rank");
    ensure!(ctx, geometry::double_move_src_rank(w) == Rank::R2 && geometry::double_move_src_rank(b) == Rank::R7, s, "double_move_src_rank");
    ensure!(ctx, geometry::double_move_dst_rank(w) == Rank::R4 && geometry::double_move_dst_rank(b) == Rank::R5, s, "double_move_dst_rank");
    ensure!(ctx, geometry::promote_src_rank(w) == Rank::R7 && geometry::promote_src_rank(b) == Rank::R2, s, "promote_src_rank");
    ensure!(ctx, geometry::promote_dst_rank(w) == Rank::R8 && geometry::promote_dst_rank(b) == Rank::R1, s, "promote_dst_rank");
    ensure!(ctx, geometry::enpassant_src_rank(w) == Rank::R5 && geometry::enpassant_src_rank(b) == Rank::R4, s, "enpassant_src_rank");
    ensure!(ctx, geometry::enpassant_dst_rank(w) == Rank::R6 && geometry::enpassant_dst_rank(b) == Rank::R3, s, "enpassant_dst_rank");
    // deltas: one rank towards the 8th rank is -8 in index; "left" is towards the a-file
    ensure!(ctx, geometry::pawn_forward_delta(w) == -8 && geometry::pawn_forward_delta(b) == 8, s, "pawn_forward_delta");
    ensure!(ctx, geometry::pawn_left_delta(w) == -9 && geometry::pawn_left_delta(b) == 7, s, "pawn_left_delta");
    ensure!(ctx, geometry::pawn_right_delta(w) == -7 && geometry::pawn_right_delta(b) == 9, s, "pawn_right_delta");
    // Rank names: R1 is where White's pieces start: index 7
    ensure!(ctx, Rank::R1.index() == 7 && Rank::R8.index() == 0 && Rank::R1.as_char() == '1', s, "rank naming");
}

pub fn run(run: &mut Run) {
    run.counter_names = NAMES;
    run.assumptions = vec![
        "models: plain integers for indices and geometry, BTreeSet<u8> for sets of squares, documented spellings written out in the check".into(),
        "castling-rights letters out of FEN order are neither demanded nor forbidden (only their value is checked when accepted)".into(),
    ];
    run.seq("INDEX <-> VALUE <-> TEXT round trips (all values of every finite type)", |ctx| section_index(ctx));
    run.seq("from_char over all 1,112,064 chars (File, Rank, Color, Cell)", |ctx| section_chars(ctx));
    run.seq("FromStr over all 0-2 byte ASCII strings; castling strings <=5 over {K,Q,k,q,-,x}", |ctx| section_strings(ctx));
    run.seq("checked constructors (indices 0..=300 + extremes), Coord::add, Coord::shift", |ctx| section_constructors(ctx));
    section_bitboards(run);
    run.seq("named constants and geometry", |ctx| section_constants(ctx));
    run.total.transitions = run.total.transitions.max(1);
    // every state of this universe is one comparison of the real type with its model
    run.total.traces = run.total.states;
}

pub fn replay(_case: &Value, ctx: &mut Ctx) {
    // the whole TYPES universe takes a few seconds; a replay re-runs it and reports what fails
    let mut run = Run::new("C20", Tier::Quick);
    self::run(&mut run);
    for v in run.total.viol {
        ctx.violate(v.case, v.msg);
    }
}
