//! String universes: all strings up to a length over an alphabet of multi-byte-aware symbols,
//! single-edit neighbourhoods, and the fixed position set P30.

use crate::model::text::read_fen;
use crate::model::Pos;
use crate::universe::mirror_colours;

/// class-representative alphabet for SAN-like parsers
pub const SIGMA_SAN: [&str; 28] = [
    "N", "B", "R", "Q", "K", "P", "O", "0", "-", "a", "b", "c", "h", "i", "1", "2", "7", "8", "9",
    "x", ":", "=", "+", "#", " ", "\u{e9}", "\u{20ac}", "\u{1f600}",
];

/// class-representative alphabet for UCI-like parsers
pub const SIGMA_UCI: [&str; 19] = [
    "a", "b", "h", "i", "1", "2", "7", "8", "9", "0", "n", "q", "k", "Q", " ", "-", "\u{e9}",
    "\u{20ac}", "\u{1f600}",
];

/// number of strings of exactly `len` symbols
pub fn count(k: usize, len: usize) -> u64 {
    (k as u64).pow(len as u32)
}

/// the `idx`-th string of exactly `len` symbols over `alphabet` (first symbol most significant)
pub fn nth(alphabet: &[&str], len: usize, mut idx: u64, out: &mut String) {
    out.clear();
    let k = alphabet.len() as u64;
    let mut digits = [0usize; 16];
    for i in (0..len).rev() {
        digits[i] = (idx % k) as usize;
        idx /= k;
    }
    for d in digits.iter().take(len) {
        out.push_str(alphabet[*d]);
    }
}

/// all single-edit neighbours (substitution, insertion, deletion over the alphabet, at character
/// boundaries) of `s`, in a fixed order, without the string itself
pub fn edits1(s: &str, alphabet: &[&str], f: &mut dyn FnMut(&str)) {
    let chars: Vec<(usize, char)> = s.char_indices().collect();
    let mut buf = String::with_capacity(s.len() + 8);
    // deletions
    for (i, c) in &chars {
        buf.clear();
        buf.push_str(&s[..*i]);
        buf.push_str(&s[*i + c.len_utf8()..]);
        f(&buf);
    }
    // substitutions
    for (i, c) in &chars {
        for a in alphabet {
            if a.len() == c.len_utf8() && a.starts_with(*c) {
                continue;
            }
            buf.clear();
            buf.push_str(&s[..*i]);
            buf.push_str(a);
            buf.push_str(&s[*i + c.len_utf8()..]);
            f(&buf);
        }
    }
    // insertions
    let mut cuts: Vec<usize> = chars.iter().map(|(i, _)| *i).collect();
    cuts.push(s.len());
    for i in cuts {
        for a in alphabet {
            buf.clear();
            buf.push_str(&s[..i]);
            buf.push_str(a);
            buf.push_str(&s[i..]);
            f(&buf);
        }
    }
}

/// all double-edit neighbours of `s`: every single-edit neighbour of every single-edit neighbour,
/// in the fixed order of `edits1` (duplicates and the string itself are not filtered out; the count
/// is therefore the number of edit *pairs*, the set is the full ball of radius 2 minus nothing)
pub fn edits2(s: &str, alphabet: &[&str], f: &mut dyn FnMut(&str)) {
    let mut firsts: Vec<String> = Vec::new();
    edits1(s, alphabet, &mut |t| firsts.push(t.to_string()));
    for t in &firsts {
        edits1(t, alphabet, f);
    }
}

/// the `idx`-th slice of `n` of the double-edit neighbourhood (split on the first edit)
pub fn edits2_slice(s: &str, alphabet: &[&str], idx: usize, n: usize, f: &mut dyn FnMut(&str)) {
    let mut firsts: Vec<String> = Vec::new();
    edits1(s, alphabet, &mut |t| firsts.push(t.to_string()));
    for (i, t) in firsts.iter().enumerate() {
        if i % n == idx {
            edits1(t, alphabet, f);
        }
    }
}

pub const P15: [&str; 17] = [
    "r3k2r/pppppppp/8/8/8/8/PPPPPPPP/R3K2R w KQkq - 0 1",
    "7k/8/8/8/8/8/N1N5/K7 w - - 0 1",
    "R7/7k/8/8/8/8/8/R3K3 w - - 0 1",
    "Q1Q5/7k/Q7/8/8/8/8/K7 w - - 0 1",
    "4k3/8/8/1Pp5/8/8/8/4K3 w - c6 0 1",
    "1n5k/P7/8/8/8/8/8/K7 w - - 0 1",
    "r6k/8/8/8/8/8/N1N5/K7 w - - 0 1",
    "k7/8/1K6/8/8/8/8/7R w - - 0 1",
    "k7/8/8/8/8/8/r7/K6R w - - 0 1",
    "7k/7p/8/8/8/8/7P/7K w - - 0 1",
    "k7/8/8/8/8/8/1B6/K1B5 w - - 0 1",
    "r3k2r/p1ppqpb1/bn2pnp1/3PN3/1p2P3/2N2Q1p/PPPBBPPP/R3K2R w KQkq - 0 1",
    "rnbqkbnr/pppppppp/8/8/8/8/PPPPPPPP/RNBQKBNR w KQkq - 0 1",
    "4k3/8/8/PpP5/8/8/8/4K3 w - b6 0 1",
    "1r5k/P1P5/8/8/8/8/8/K7 w - - 0 1",
    // enemy men on the mover's own back rank, own pawns next to them
    "4k3/8/8/8/8/8/1P6/r1n1K2b w - - 0 1",
    "4k3/8/8/8/8/1P6/PP5P/rnb1K2r w - - 0 1",
];

/// P30: the seventeen positions above and their colour-mirrored twins (34 positions)
pub fn p30() -> Vec<Pos> {
    let mut v = Vec::new();
    for f in P15 {
        let p = read_fen(f).expect("P15 fen");
        v.push(p);
        v.push(mirror_colours(&p));
    }
    v
}
