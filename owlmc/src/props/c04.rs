//! C04 - undoing a move restores the position exactly

use crate::bind::*;
use crate::engine::*;
use crate::model::text;
use crate::model::*;
use crate::props::common::*;
use crate::universe as uni;
use owlchess::moves::make::{Make, San, TryUnchecked, Uci};
use owlchess::moves::{make_move_unchecked, unmake_move_unchecked};
use owlchess::{Board, Move, MoveChain};
use serde_json::{json, Value};

pub const NAMES: &[&str] = &[
    "undo_pairs",
    "illegal_semilegal_undone",
    "null_moves_undone",
    "make_raw_flavours",
    "refused_make_raw",
    "chain_push_pop",
    "nested_nodes",
    "max_nesting",
    "model_impl_validity_disagreements",
    "long_lines",
    "long_line_plies",
    "max_line_length",
];
const PAIRS: usize = 0;
const ILLEGAL: usize = 1;
const NULLS: usize = 2;
const FLAV: usize = 3;
const REFUSED: usize = 4;
const CHAIN: usize = 5;
const NESTED: usize = 6;
const MAXNEST: usize = 7;
const DISAGREE: usize = 8;
const LONGS: usize = 9;
const LONGPLIES: usize = 10;
const MAXLINE: usize = 11;
const MAX_IDX: &[usize] = &[MAXNEST, MAXLINE];

fn expect_same(ctx: &mut Ctx, p: &Pos, what: &str, m: Option<Mv>, before: &Full, after: &Board) {
    let f = full(after);
    if f != *before {
        let case = match m {
            Some(m) => case_pos_mv(p, what, m),
            None => case_pos(p, what),
        };
        ctx.violate(case, format!("{}: state after undo differs from the state before: {}", what, full_diff(&f, before)));
    }
}

pub fn check_pos_opt(ctx: &mut Ctx, p: &Pos, b: &Board, flavours: bool) {
    ctx.states += 1;
    let f0 = full(b);
    let mut s = b.clone();
    let pseudo = p.pseudo_vec();
    for &m in &pseudo {
        let Ok(mv) = to_move(p, m) else { continue };
        if !mv.is_semilegal(b) {
            continue; // C06's business; the unchecked interface must not see it
        }
        let legal = p.is_legal(m);
        ctx.transitions += 2;
        ctx.traces += 1;
        ctx.add(PAIRS, 1);
        if !legal {
            ctx.add(ILLEGAL, 1);
        }
        unsafe {
            let u = make_move_unchecked(&mut s, mv);
            let _ = s.is_opponent_king_attacked();
            unmake_move_unchecked(&mut s, mv, u);
        }
        expect_same(ctx, p, "make_move_unchecked/unmake_move_unchecked", Some(m), &f0, &s);

        // TryUnchecked: rollback of illegal moves happens inside
        match unsafe { TryUnchecked::new(mv) }.make_raw(&mut s) {
            Ok((mm, u)) => {
                if !legal {
                    ctx.violate(case_pos_mv(p, "TryUnchecked::make_raw", m), "illegal move accepted".into());
                }
                unsafe { unmake_move_unchecked(&mut s, mm, u) };
            }
            Err(_) => {
                ctx.add(REFUSED, 1);
            }
        }
        expect_same(ctx, p, "TryUnchecked::make_raw (+undo or internal rollback)", Some(m), &f0, &s);

        if flavours {
            // the Make implementations, each followed by undo (or refusal leaving the board as is)
            macro_rules! flavour {
                ($name:literal, $val:expr) => {{
                    ctx.add(FLAV, 1);
                    match $val.make_raw(&mut s) {
                        Ok((mm, u)) => {
                            if mm != mv {
                                ctx.violate(case_pos_mv(p, $name, m), format!("{} applied a different move {}", $name, mm));
                            }
                            unsafe { unmake_move_unchecked(&mut s, mm, u) };
                        }
                        Err(_) => ctx.add(REFUSED, 1),
                    }
                    expect_same(ctx, p, $name, Some(m), &f0, &s);
                }};
            }
            flavour!("Move::make_raw", mv);
            flavour!("uci::Move::make_raw", mv.uci());
            flavour!("Uci(str)::make_raw", Uci(mv.to_string()));
            if legal {
                if let Ok(sm) = mv.san(b) {
                    flavour!("san::Move::make_raw", sm);
                    flavour!("San(str)::make_raw", San(sm.to_string()));
                }
            }
        }
    }
    // the null move
    ctx.add(NULLS, 1);
    ctx.transitions += 2;
    unsafe {
        let u = make_move_unchecked(&mut s, Move::NULL);
        unmake_move_unchecked(&mut s, Move::NULL, u);
    }
    expect_same(ctx, p, "null move", None, &f0, &s);

    // MoveChain push + pop
    if flavours {
        let mut chain = MoveChain::new(b.clone());
        for &m in &pseudo {
            let Ok(mv) = to_move(p, m) else { continue };
            ctx.add(CHAIN, 1);
            let ok = chain.push(mv).is_ok();
            if ok {
                if chain.pop() != Some(mv) {
                    ctx.violate(case_pos_mv(p, "MoveChain::pop", m), "pop did not return the pushed move".into());
                }
            }
            expect_same(ctx, p, "MoveChain::push + pop", Some(m), &f0, chain.last());
            if chain.len() != 0 {
                ctx.violate(case_pos_mv(p, "MoveChain::push + pop", m), "chain not empty after push + pop".into());
            }
        }
    }
    if ctx.samples.is_empty() {
        ctx.samples.push(json!({"fen": text::fen(p), "semilegal_moves_applied_and_undone": pseudo.iter().map(|&m| text::uci(m)).collect::<Vec<_>>()}));
    }
}

pub fn check_pos(ctx: &mut Ctx, p: &Pos, b: &Board) {
    check_pos_opt(ctx, p, b, true)
}

pub fn check_pos_core(ctx: &mut Ctx, p: &Pos, b: &Board) {
    check_pos_opt(ctx, p, b, false)
}

/// nested apply/undo on ONE mutable board, checked on the way down and after every undo
fn nested(ctx: &mut Ctx, p: &Pos, board: &mut Board, left: u32, depth: u32, root: &Pos, path: &mut Vec<Mv>) {
    ctx.states += 1;
    ctx.add(NESTED, 1);
    ctx.max(MAXNEST, depth as u64);
    // on the way down: the mutable board equals a freshly validated twin of the model position
    let twin = match board_of(p) {
        Some(t) => t,
        None => {
            ctx.add(DISAGREE, 1);
            return;
        }
    };
    let before = full(&twin);
    let here = full(board);
    if here != before {
        ctx.violate(
            json!({"kind": "nested", "fen": text::fen(root), "path": path.iter().map(|&m| text::uci(m)).collect::<Vec<_>>()}),
            format!("board reached by nested make differs from a fresh board of the same position: {}", full_diff(&here, &before)),
        );
        return;
    }
    if left == 0 {
        return;
    }
    // all semilegal moves: illegal ones are made, probed and undone; legal ones are descended
    for m in p.pseudo_vec() {
        let Ok(mv) = to_move(p, m) else { continue };
        if !mv.is_semilegal(board) {
            continue;
        }
        ctx.transitions += 2;
        ctx.traces += 1;
        let u = unsafe { make_move_unchecked(board, mv) };
        let attacked = board.is_opponent_king_attacked();
        if !attacked {
            path.push(m);
            nested(ctx, &p.apply(m), board, left - 1, depth + 1, root, path);
            path.pop();
        }
        unsafe { unmake_move_unchecked(board, mv, u) };
        let after = full(board);
        if after != before {
            let mut pp: Vec<String> = path.iter().map(|&m| text::uci(m)).collect();
            pp.push(text::uci(m));
            ctx.violate(
                json!({"kind": "nested", "fen": text::fen(root), "path": pp}),
                format!("after undoing the last move of the path the board differs from what it was before: {}", full_diff(&after, &before)),
            );
            return;
        }
    }
}

fn replay_nested(case: &Value, ctx: &mut Ctx) {
    let Some(root) = case["fen"].as_str().and_then(text::read_fen) else { return };
    let Some(mut board) = board_of(&root) else { return };
    let path: Vec<String> = case["path"].as_array().map(|a| a.iter().filter_map(|x| x.as_str().map(|s| s.to_string())).collect()).unwrap_or_default();
    // walk down the path with make, remembering undo records and snapshots; then come back up
    let mut p = root;
    let mut stack = Vec::new();
    for (i, u) in path.iter().enumerate() {
        let Some(m) = p.pseudo_vec().into_iter().find(|&m| text::uci(m) == *u) else {
            ctx.violate(case.clone(), "replay: path move not pseudo-legal in the model".into());
            return;
        };
        let Ok(mv) = to_move(&p, m) else { return };
        let before = full(&board);
        if let Some(t) = board_of(&p) {
            if full(&t) != before {
                ctx.violate(case.clone(), format!("replay: board at depth {} differs from a fresh board: {}", i, full_diff(&before, &full(&t))));
                return;
            }
        }
        let undo = unsafe { make_move_unchecked(&mut board, mv) };
        stack.push((mv, undo, before));
        p = p.apply(m);
    }
    while let Some((mv, undo, before)) = stack.pop() {
        unsafe { unmake_move_unchecked(&mut board, mv, undo) };
        let after = full(&board);
        if after != before {
            ctx.violate(case.clone(), format!("replay: after undo at depth {} the board differs: {}", stack.len(), full_diff(&after, &before)));
            return;
        }
    }
}

pub fn run(run: &mut Run) {
    run.counter_names = NAMES;
    run.max_idx = MAX_IDX;
    run.assumptions = vec![
        "snapshot oracle: every observable of the board (raw fields, hash, colour sets, 13 per-cell sets, combined set via hook H1) before = after".into(),
        "only getters and is_opponent_king_attacked are called on temporarily invalid boards".into(),
    ];
    let thorough = run.thorough();
    let mut sel = Sel::standard(thorough);
    sel.counters = true;
    sel.clocks = true;
    sel.m4 = None;
    run_universes(run, &sel, DISAGREE, &check_pos);
    if thorough {
        let sel4 = Sel { m4: Some(uni::M4_SHARDS), ..Default::default() };
        run.notes.push("M4: unchecked make/unmake, TryUnchecked and null move only (the Make flavours and chain push/pop are exercised on the other universes)".into());
        run_universes(run, &sel4, DISAGREE, &check_pos_core);
    }
    // nested DFS on one mutable board from every seed
    let depth = if thorough { 4 } else { 3 };
    let seeds = uni::seeds();
    // shard by (seed, first legal move) to use all cores
    let mut roots: Vec<(Pos, Option<Mv>)> = Vec::new();
    for s in &seeds {
        roots.push((*s, None));
    }
    let mut jobs: Vec<(Pos, Mv)> = Vec::new();
    for s in &seeds {
        for m in s.legal() {
            jobs.push((*s, m));
        }
    }
    run.par_shards(&format!("NESTED make/unmake DFS depth {} on one board", depth), jobs.len(), |ctx, sh| {
        let (root, m) = jobs[sh];
        let Some(mut board) = board_of(&root) else { return };
        let Ok(mv) = to_move(&root, m) else { return };
        let before = full(&board);
        let u = unsafe { make_move_unchecked(&mut board, mv) };
        let mut path = vec![m];
        nested(ctx, &root.apply(m), &mut board, depth - 1, 1, &root, &mut path);
        unsafe { unmake_move_unchecked(&mut board, mv, u) };
        if full(&board) != before {
            ctx.violate(json!({"kind": "nested", "fen": text::fen(&root), "path": [text::uci(m)]}), "root not restored after the nested exploration".into());
        }
    });
    // deep single lines on one board: hundreds of nested make calls, then all undone
    let ll = long_lines(thorough);
    run.par_shards(&format!("LONG: {} deterministic lines of up to {} plies made on one board and unwound (single deep executions)", ll.len(), uni::long_max(thorough)), ll.len(), |ctx, i| {
        let n = deep_line(ctx, &ll[i].0, &ll[i].1, "deep");
        ctx.add(LONGS, 1);
        ctx.add(LONGPLIES, n as u64);
        ctx.max(MAXLINE, n as u64);
    });
}

pub fn replay(case: &Value, ctx: &mut Ctx) {
    match case["kind"].as_str() {
        Some("nested") => replay_nested(case, ctx),
        Some("deep") => replay_deep(case, ctx, "deep"),
        _ => replay_pos(case, ctx, &check_pos),
    }
}
