//! C08 - FEN formatting and FEN parsing are mutually inverse

use crate::bind::*;
use crate::engine::*;
use crate::model::text;
use crate::model::*;
use crate::props::common::*;
use owlchess::{Board, RawBoard};
use serde_json::{json, Value};

pub const NAMES: &[&str] = &[
    "board_round_trips",
    "raw_round_trips",
    "with_ep_mark",
    "with_castling",
    "counter_values",
    "rank_patterns",
    "model_impl_validity_disagreements",
    "accepted_fen_strings",
];
const ACCEPTED: usize = 7;
const BRT: usize = 0;
const RRT: usize = 1;
const EPM: usize = 2;
const CR: usize = 3;
const CNT: usize = 4;
const RANKS: usize = 5;
const DISAGREE: usize = 6;

pub fn check_pos(ctx: &mut Ctx, p: &Pos, b: &Board) {
    ctx.states += 1;
    ctx.transitions += 2;
    ctx.traces += 1;
    ctx.add(BRT, 1);
    if p.ep.is_some() {
        ctx.add(EPM, 1);
    }
    if p.cr.iter().any(|&x| x) {
        ctx.add(CR, 1);
    }
    let fen = b.as_fen();
    let want = text::fen(p);
    if fen != want {
        ctx.violate(case_pos(p, "as_fen"), format!("as_fen = `{}` but the canonical record is `{}`", fen, want));
    }
    if b.to_string() != fen || b.raw().as_fen() != fen {
        ctx.violate(case_pos(p, "as_fen variants"), "Board::to_string / RawBoard::as_fen differ from Board::as_fen".into());
    }
    match text::read_fen(&fen) {
        Some(q) if q == *p => {}
        other => ctx.violate(case_pos(p, "independent reader"), format!("an independent FEN reader interprets `{}` as {:?}", fen, other.map(|q| text::fen(&q)))),
    }
    match Board::from_fen(&fen) {
        Ok(b2) => {
            if b2 != *b || full(&b2) != full(b) {
                ctx.violate(case_pos(p, "from_fen(as_fen)"), format!("round trip changed the position: {}", full_diff(&full(&b2), &full(b))));
            }
        }
        Err(e) => ctx.violate(case_pos(p, "from_fen(as_fen)"), format!("own FEN `{}` refused: {}", fen, e)),
    }
    match RawBoard::from_fen(&fen) {
        Ok(r) => {
            if r != *b.raw() {
                ctx.violate(case_pos(p, "RawBoard::from_fen(as_fen)"), "raw round trip changed the position".into());
            }
        }
        Err(e) => ctx.violate(case_pos(p, "RawBoard::from_fen(as_fen)"), format!("own FEN refused: {}", e)),
    }
    if ctx.samples.is_empty() {
        ctx.samples.push(json!({"fen": fen}));
    }
}

fn raw_round_trip(ctx: &mut Ctx, r: &RawPos) {
    ctx.states += 1;
    ctx.transitions += 2;
    ctx.traces += 1;
    ctx.add(RRT, 1);
    set_slot_raw(r);
    let raw = raw_of_rawpos(r);
    let res = guarded(|| {
        let fen = raw.as_fen();
        (fen.clone(), RawBoard::from_fen(&fen))
    });
    match res {
        Err(m) => ctx.violate(case_raw(r, "raw round trip"), format!("panic: {}", m)),
        Ok((fen, Ok(back))) => {
            if back != raw {
                ctx.violate(case_raw(r, "raw round trip"), format!("RawBoard::from_fen(as_fen) changed the board (`{}` -> `{}`)", fen, back.as_fen()));
            }
            let want = text::fen_raw(r);
            if fen != want {
                ctx.violate(case_raw(r, "raw as_fen"), format!("as_fen = `{}` but the canonical record is `{}`", fen, want));
            }
        }
        Ok((fen, Err(e))) => ctx.violate(case_raw(r, "raw round trip"), format!("own FEN `{}` refused: {}", fen, e)),
    }
}

/// RAW(e): rank patterns, en-passant files, all counter values
fn raw_universe(run: &mut Run) {
    // every rank pattern over {empty, P, k} in each of the 8 rank slots: 3^8 x 8
    run.par_shards("RAW rank patterns (3^8 x 8 slots x 2 sides)", 8, |ctx, slot| {
        let alph = [EMPTY, P, K | BLACK];
        for pat in 0..3usize.pow(8) {
            for stm in 0..2u8 {
                let mut r = RawPos { b: [EMPTY; 64], stm, cr: [false; 4], eps: None, hmc: 3, fmn: 17 };
                let mut x = pat;
                for f in 0..8 {
                    r.b[sq(f, slot as i32)] = alph[x % 3];
                    x /= 3;
                }
                ctx.add(RANKS, 1);
                raw_round_trip(ctx, &r);
            }
        }
    });
    // every rank pattern over {empty, P, p, N, q}: men of one kind in both colours next to each
    // other, runs of every length; 5^8 patterns x 8 slots
    run.par_shards("RAW rank patterns over {., P, p, N, q} (5^8 x 8 slots)", 40, |ctx, sh| {
        let alph = [EMPTY, P, P | BLACK, N, Q | BLACK];
        let slot = sh / 5;
        for rest in 0..5usize.pow(7) {
            let mut r = RawPos { b: [EMPTY; 64], stm: (rest & 1) as u8, cr: [false; 4], eps: None, hmc: 3, fmn: 17 };
            let mut x = rest * 5 + sh % 5;
            for f in 0..8 {
                r.b[sq(f, slot as i32)] = alph[x % 5];
                x /= 5;
            }
            ctx.add(RANKS, 1);
            raw_round_trip(ctx, &r);
        }
    });
    // every en-passant file for both sides with a rank-consistent mark, with and without the
    // pawn, every castling value
    run.seq("RAW en-passant marks x castling values", |ctx| {
        for stm in 0..2u8 {
            for file in 0..8 {
                for with_pawn in [false, true] {
                    for crm in 0..16u8 {
                        let mut r = RawPos { b: [EMPTY; 64], stm, cr: [crm & 1 != 0, crm & 2 != 0, crm & 4 != 0, crm & 8 != 0], eps: None, hmc: 0, fmn: 1 };
                        let pr = ep_pawn_rank(stm);
                        if with_pawn {
                            r.b[sq(file, pr)] = mk(1 - stm, P);
                        }
                        r.eps = Some(sq(file, pr) as u8);
                        ctx.add(EPM, 1);
                        raw_round_trip(ctx, &r);
                    }
                }
            }
        }
    });
    // dense boards: every rank is one of six dense patterns (this is where the board field of
    // the record gets long: up to 71 characters); 6^8 boards x 2 sides. Men are white on ranks
    // 1-4 and black on ranks 5-8, kings on a1 / a8 when those squares are free or occupied by
    // the pattern's man, so that a good part of the family is also VALID (<= 16 men a side) and
    // goes through the position-level round trip as well.
    run.par_shards("DENSE boards (6 dense patterns per rank, 6^8 boards x 2 sides; valid ones also as positions)", crate::universe::DENSE_SHARDS, |ctx, sh| {
        let cell = std::cell::RefCell::new(ctx);
        crate::universe::dense(
            sh,
            &mut |r| raw_round_trip(*cell.borrow_mut(), r),
            &mut |p| {
                if let Some(board) = board_of(p) {
                    check_pos(*cell.borrow_mut(), p, &board);
                }
            },
        );
    });
    // both counters over all 65,536 values each
    run.par_shards("RAW counters (2 x 65,536 values)", 64, |ctx, sh| {
        for i in 0..1024u32 {
            let v = sh as u32 * 1024 + i;
            for which in 0..2 {
                let mut r = RawPos { b: [EMPTY; 64], stm: (v & 1) as u8, cr: [false; 4], eps: None, hmc: 0, fmn: 1 };
                r.b[4] = K;
                r.b[60] = K | BLACK;
                if which == 0 {
                    r.hmc = v;
                } else {
                    r.fmn = v;
                }
                ctx.add(CNT, 1);
                raw_round_trip(ctx, &r);
            }
        }
    });
}

/// (iii) for any text the parser accepts, parse - format - parse is stable
fn accepted_stable(ctx: &mut Ctx, t: &str) {
    ctx.states += 1;
    set_slot_text(1, t);
    let r = match guarded(|| RawBoard::from_fen(t)) {
        Ok(r) => r,
        Err(m) => {
            ctx.violate(json!({"kind": "fen_text", "text": t}), format!("RawBoard::from_fen({:?}) panicked: {}", t, m));
            return;
        }
    };
    let Ok(r) = r else { return };
    ctx.add(ACCEPTED, 1);
    ctx.transitions += 2;
    ctx.traces += 1;
    let f = r.as_fen();
    match RawBoard::from_fen(&f) {
        Ok(r2) if r2 == r && r2.as_fen() == f => {}
        other => ctx.violate(json!({"kind": "fen_text", "text": t}), format!("{:?} parses to `{}`, which parses back to {:?}", t, f, other.map(|x| x.as_fen()))),
    }
    if let Ok(b) = Board::from_fen(t) {
        let f = b.as_fen();
        match Board::from_fen(&f) {
            Ok(b2) if full(&b2) == full(&b) && b2.as_fen() == f => {}
            other => ctx.violate(json!({"kind": "fen_text", "text": t}), format!("{:?} parses to the position `{}`, which parses back to {:?}", t, f, other.map(|x| x.as_fen()))),
        }
    }
}

pub fn run(run: &mut Run) {
    run.counter_names = NAMES;
    run.assumptions = vec![
        "independent FEN writer and reader of the reference model (text.rs)".into(),
        "accepted FEN strings: a field product of 40 board fields x 7 sides x 9 castlings x 10 marks x 10 x 10 counter spellings, plus every single-edit neighbour of 40 canonical records".into(),
    ];
    let thorough = run.thorough();
    let sel = if thorough {
        Sel { m3: true, ep: Some(false), castle: Some(false), promo: Some(false), reach: Some(4), counters: true, m4: Some(crate::universe::M4_SHARDS), hist_counters: Some(2), hist: Some((3, 2)), hist_discover: true, counts: true, promorow: true, ..Default::default() }
    } else {
        Sel { m3: true, ep: Some(false), castle: Some(false), promo: Some(false), reach: Some(3), counters: true, hist_counters: Some(1), hist: Some((3, 0)), hist_discover: true, counts: true, promorow: true, ..Default::default() }
    };
    run_universes(run, &sel, DISAGREE, &check_pos);
    raw_universe(run);
    crate::props::c12::fen_product(run, &|ctx, t| accepted_stable(ctx, t));
    crate::props::c12::fen_edits(run, &|ctx, t| accepted_stable(ctx, t));
}

pub fn replay(case: &Value, ctx: &mut Ctx) {
    match case["kind"].as_str() {
        Some("fen_text") => {
            if let Some(t) = case["text"].as_str() {
                accepted_stable(ctx, t);
            }
        }
        Some("str") => {
            let bytes: Vec<u8> = case["text_bytes"].as_array().map(|a| a.iter().filter_map(|x| x.as_u64().map(|b| b as u8)).collect()).unwrap_or_default();
            if let Ok(t) = String::from_utf8(bytes) {
                accepted_stable(ctx, &t);
            }
        }
        Some("raw") => {
            if let Some(r) = rawpos_from_json(&case["raw"]) {
                raw_round_trip(ctx, &r);
            }
        }
        _ => replay_pos(case, ctx, &check_pos),
    }
}
