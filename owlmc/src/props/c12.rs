//! C12 - every text parser is total: malformed input gives an error, never a panic

use crate::bind::*;
use crate::engine::*;
use crate::model::text;
use crate::model::*;
use crate::props::c10::all_uci;
use crate::props::strs;
use owlchess::moves::make::{Make, Uci};
use owlchess::moves::{san, uci};
use owlchess::{Board, CastlingRights, Cell, Color, Coord, Move, MoveChain, RawBoard};
use serde_json::{json, Value};

pub const NAMES: &[&str] = &[
    "parse_calls",
    "accepted_fen",
    "accepted_uci",
    "accepted_san",
    "accepted_list",
    "accepted_coord",
    "accepted_cell",
    "accepted_color",
    "accepted_castling",
    "non_ascii_inputs",
    "round_trips",
    "list_errors_with_position",
];
const CALLS: usize = 0;
const AFEN: usize = 1;
const AUCI: usize = 2;
const ASAN: usize = 3;
const ALIST: usize = 4;
const ACOORD: usize = 5;
const ACELL: usize = 6;
const ACOLOR: usize = 7;
const ACASTLE: usize = 8;
const NONASCII: usize = 9;
const RT: usize = 10;
const LISTERR: usize = 11;

/// parser ids (also used in crash slots)
pub const P_FEN: u8 = 1;
pub const P_UCI: u8 = 2;
pub const P_SAN: u8 = 3;
pub const P_LIST: u8 = 4;
pub const P_SMALL: u8 = 5;

fn case(parser: u8, t: &str, fen: Option<&str>) -> Value {
    json!({"kind": "str", "parser": parser, "text": t, "text_bytes": t.as_bytes(), "fen": fen})
}

macro_rules! total {
    ($ctx:expr, $parser:expr, $t:expr, $fen:expr, $name:literal, $call:expr) => {{
        $ctx.add(CALLS, 1);
        $ctx.transitions += 1;
        match guarded(|| $call) {
            Ok(v) => Some(v),
            Err(m) => {
                $ctx.violate(case($parser, $t, $fen), format!("{}({:?}) panicked: {}", $name, $t, m));
                None
            }
        }
    }};
}

pub fn fen_text(ctx: &mut Ctx, t: &str) {
    ctx.states += 1;
    set_slot_text(P_FEN, t);
    if !t.is_ascii() {
        ctx.add(NONASCII, 1);
    }
    if let Some(Ok(r)) = total!(ctx, P_FEN, t, None, "RawBoard::from_fen", RawBoard::from_fen(t)) {
        ctx.add(AFEN, 1);
        ctx.add(RT, 1);
        let f = r.as_fen();
        match guarded(|| RawBoard::from_fen(&f)) {
            Ok(Ok(r2)) if r2 == r => {
                // parse - format - parse is stable, and so is the text
                if r2.as_fen() != f {
                    ctx.violate(case(P_FEN, t, None), format!("format(parse(format(parse({:?})))) differs", t));
                }
            }
            other => ctx.violate(case(P_FEN, t, None), format!("RawBoard::from_fen({:?}) = `{}` but parsing that text back gives {:?}", t, f, other.map(|x| x.map(|y| y.as_fen())))),
        }
    }
    if let Some(Ok(b)) = total!(ctx, P_FEN, t, None, "Board::from_fen", Board::from_fen(t)) {
        ctx.add(RT, 1);
        let f = b.as_fen();
        match guarded(|| Board::from_fen(&f)) {
            Ok(Ok(b2)) if full(&b2) == full(&b) => {}
            other => ctx.violate(case(P_FEN, t, None), format!("Board::from_fen({:?}) = `{}` but parsing that text back gives {:?}", t, f, other.map(|x| x.map(|y| y.as_fen())))),
        }
    }
    let _ = total!(ctx, P_FEN, t, None, "MoveChain::from_fen", MoveChain::from_fen(t).map(|c| c.len()));
}

pub fn uci_text(ctx: &mut Ctx, t: &str, boards: &[(String, Board)]) {
    ctx.states += 1;
    set_slot_text(P_UCI, t);
    if !t.is_ascii() {
        ctx.add(NONASCII, 1);
    }
    if let Some(Ok(v)) = total!(ctx, P_UCI, t, None, "uci::Move::from_str", t.parse::<uci::Move>()) {
        ctx.add(AUCI, 1);
        ctx.add(RT, 1);
        let f = v.to_string();
        if f.parse::<uci::Move>() != Ok(v) {
            ctx.violate(case(P_UCI, t, None), format!("uci::Move parsed from {:?} formats as `{}` which does not parse back to it", t, f));
        }
    }
    for (fen, b) in boards {
        let fen = Some(fen.as_str());
        if let Some(Ok(m)) = total!(ctx, P_UCI, t, fen, "Move::from_uci", Move::from_uci(t, b)) {
            ctx.add(RT, 1);
            let f = m.to_string();
            if Move::from_uci(&f, b) != Ok(m) {
                ctx.violate(case(P_UCI, t, fen), format!("Move::from_uci({:?}) formats as `{}` which does not read back to the same move", t, f));
            }
        }
        let _ = total!(ctx, P_UCI, t, fen, "Move::from_uci_semilegal", Move::from_uci_semilegal(t, b).is_ok());
        let _ = total!(ctx, P_UCI, t, fen, "Move::from_uci_legal", Move::from_uci_legal(t, b).is_ok());
        let _ = total!(ctx, P_UCI, t, fen, "Uci(str).make", Uci(t).make(b).is_ok());
    }
}

pub fn san_text(ctx: &mut Ctx, t: &str, boards: &[(String, Board)]) {
    ctx.states += 1;
    set_slot_text(P_SAN, t);
    if !t.is_ascii() {
        ctx.add(NONASCII, 1);
    }
    if let Some(Ok(v)) = total!(ctx, P_SAN, t, None, "san::Move::from_str", t.parse::<san::Move>()) {
        ctx.add(ASAN, 1);
        ctx.add(RT, 1);
        let f = match guarded(|| v.to_string()) {
            Ok(f) => f,
            Err(m) => {
                ctx.violate(case(P_SAN, t, None), format!("formatting the san::Move parsed from {:?} panicked: {}", t, m));
                return;
            }
        };
        if f.parse::<san::Move>() != Ok(v) {
            ctx.violate(case(P_SAN, t, None), format!("san::Move parsed from {:?} formats as `{}` which does not parse back to it", t, f));
        }
        let _ = guarded(|| v.styled(san::Style::Utf8).to_string());
    }
    for (fen, b) in boards {
        let fen = Some(fen.as_str());
        if let Some(Ok(m)) = total!(ctx, P_SAN, t, fen, "Move::from_san", Move::from_san(t, b)) {
            ctx.add(RT, 1);
            match guarded(|| m.san(b).map(|s| s.to_string())) {
                Ok(Ok(f)) => {
                    if Move::from_san(&f, b) != Ok(m) {
                        ctx.violate(case(P_SAN, t, fen), format!("Move::from_san({:?}) formats as `{}` which does not read back to the same move", t, f));
                    }
                }
                other => ctx.violate(case(P_SAN, t, fen), format!("the move read from {:?} cannot be formatted: {:?}", t, other)),
            }
        }
    }
}

/// san_text on one position whose FEN is only written out when needed
pub fn san_text_pos(ctx: &mut Ctx, t: &str, p: &Pos, boards: &[(String, Board)]) {
    let nv = ctx.nviol;
    san_text(ctx, t, boards);
    if ctx.nviol > nv {
        // re-run with the position named, so that the recorded case is replayable
        let named = vec![(text::fen(p), boards[0].1.clone())];
        let keep = ctx.viol.len().saturating_sub((ctx.nviol - nv) as usize);
        ctx.viol.truncate(keep);
        ctx.nviol = nv;
        san_text(ctx, t, &named);
    }
}

pub fn small_text(ctx: &mut Ctx, t: &str) {
    ctx.states += 1;
    set_slot_text(P_SMALL, t);
    if !t.is_ascii() {
        ctx.add(NONASCII, 1);
    }
    if let Some(Ok(v)) = total!(ctx, P_SMALL, t, None, "Coord::from_str", t.parse::<Coord>()) {
        ctx.add(ACOORD, 1);
        ctx.add(RT, 1);
        if v.to_string().parse::<Coord>() != Ok(v) {
            ctx.violate(case(P_SMALL, t, None), format!("Coord parsed from {:?} does not round-trip", t));
        }
    }
    if let Some(Ok(v)) = total!(ctx, P_SMALL, t, None, "Cell::from_str", t.parse::<Cell>()) {
        ctx.add(ACELL, 1);
        ctx.add(RT, 1);
        if v.to_string().parse::<Cell>() != Ok(v) {
            ctx.violate(case(P_SMALL, t, None), format!("Cell parsed from {:?} does not round-trip", t));
        }
    }
    if let Some(Ok(v)) = total!(ctx, P_SMALL, t, None, "Color::from_str", t.parse::<Color>()) {
        ctx.add(ACOLOR, 1);
        ctx.add(RT, 1);
        if v.to_string().parse::<Color>() != Ok(v) {
            ctx.violate(case(P_SMALL, t, None), format!("Color parsed from {:?} does not round-trip", t));
        }
    }
    if let Some(Ok(v)) = total!(ctx, P_SMALL, t, None, "CastlingRights::from_str", t.parse::<CastlingRights>()) {
        ctx.add(ACASTLE, 1);
        ctx.add(RT, 1);
        if v.to_string().parse::<CastlingRights>() != Ok(v) {
            ctx.violate(case(P_SMALL, t, None), format!("CastlingRights parsed from {:?} does not round-trip", t));
        }
    }
}

pub fn list_text(ctx: &mut Ctx, t: &str, boards: &[(String, Board)]) {
    ctx.states += 1;
    set_slot_text(P_LIST, t);
    if !t.is_ascii() {
        ctx.add(NONASCII, 1);
    }
    for (fen, b) in boards {
        let fen = Some(fen.as_str());
        let mut chain = MoveChain::new(b.clone());
        let r = total!(ctx, P_LIST, t, fen, "MoveChain::push_uci_list", chain.push_uci_list(t));
        match r {
            Some(Ok(())) => {
                ctx.add(ALIST, 1);
                ctx.add(RT, 1);
                // every token was applied; the chain's own list text rebuilds an equal chain
                let ntok = t.split_ascii_whitespace().count();
                if chain.len() != ntok {
                    ctx.violate(case(P_LIST, t, fen), format!("push_uci_list accepted {} tokens but the chain has {} moves", ntok, chain.len()));
                }
                let l = chain.uci().to_string();
                match guarded(|| MoveChain::from_uci_list(b.clone(), &l)) {
                    Ok(Ok(c2)) if c2 == chain && full(c2.last()) == full(chain.last()) => {}
                    _ => ctx.violate(case(P_LIST, t, fen), format!("the list text `{}` of the chain built from {:?} does not rebuild it", l, t)),
                }
            }
            Some(Err(e)) => {
                ctx.add(LISTERR, 1);
                // the reported position is the number of moves applied before the failing token
                if e.pos != chain.len() {
                    ctx.violate(case(P_LIST, t, fen), format!("push_uci_list reports failing token #{} but {} moves were applied", e.pos, chain.len()));
                }
                // the prefix was applied consistently
                let mut c2 = MoveChain::new(b.clone());
                for tok in t.split_ascii_whitespace().take(e.pos) {
                    if c2.push(Uci(tok)).is_err() {
                        ctx.violate(case(P_LIST, t, fen), "prefix of a partially applied list does not replay".into());
                    }
                }
                if c2 != chain || full(c2.last()) != full(chain.last()) {
                    ctx.violate(case(P_LIST, t, fen), "chain after a failing list differs from the replay of the applied prefix".into());
                }
            }
            None => {}
        }
        let _ = total!(ctx, P_LIST, t, fen, "MoveChain::from_uci_list", MoveChain::from_uci_list(b.clone(), t).is_ok());
    }
}

fn boards_of(ps: &[Pos]) -> Vec<(String, Board)> {
    ps.iter().filter_map(|p| board_of(p).map(|b| (text::fen(p), b))).collect()
}

const SIGMA_SMALL: [&str; 30] = [
    "a", "h", "i", "e", "1", "8", "9", "0", "K", "Q", "k", "q", "-", "w", "b", "W", ".", "p", "P", "x", " ", "/", "\t", "\n", "\u{0}", "\u{7f}", "\u{e9}", "\u{20ac}", "\u{1f600}", "\u{a0}",
];

const SIGMA_FEN_EDIT: [&str; 22] = ["r", "K", "k", "P", "p", "1", "8", "9", "0", "/", " ", "w", "b", "-", "Q", "q", "a", "e", "3", "6", "x", "\u{e9}"];

fn all_over(run: &mut Run, name: &str, alphabet: &'static [&'static str], len: usize, f: &(dyn Fn(&mut Ctx, &str) + Sync)) {
    let k = alphabet.len();
    let total = strs::count(k, len);
    let shards = ((k * k) as u64).min(total).max(1) as usize;
    let per = total / shards as u64;
    run.par_shards(&format!("{}: all strings of {} symbols over {}", name, len, k), shards, |ctx, sh| {
        let mut s = String::new();
        let lo = sh as u64 * per;
        let hi = if sh == shards - 1 { total } else { lo + per };
        for idx in lo..hi {
            strs::nth(alphabet, len, idx, &mut s);
            f(ctx, &s);
        }
    });
}

/// FEN field product
pub fn fen_product(run: &mut Run, f: &(dyn Fn(&mut Ctx, &str) + Sync)) {
    let boards: Vec<&str> = vec![
        "rnbqkbnr/pppppppp/8/8/8/8/PPPPPPPP/RNBQKBNR", "8/8/8/8/8/8/8/8", "4k3/8/8/8/8/8/8/4K3", "r3k2r/8/8/8/8/8/8/R3K2R",
        "4k3/8/8/3pP3/8/8/8/4K3", "4k3/8/8/8/3Pp3/8/8/4K3", "8/8/8/8/8/8/8", "8/8/8/8/8/8/8/8/8", "9/8/8/8/8/8/8/8", "7/8/8/8/8/8/8/8",
        "44/8/8/8/8/8/8/8", "8/8/8/8/8/8/8/7", "8/8/8/8/8/8/8/8/", "/8/8/8/8/8/8/8", "8/8/8/8/8/8/8/71", "8/8/8/8/8/8/8/17", "ppppppppp/8/8/8/8/8/8/8",
        "k7/8/8/8/8/8/8/K6x", "k7/8/8/8/8/8/8/K6.", "k7/8/8/8/8/8/8/K60", "k7/8/8/8/8/8/8/K6\u{e9}", "", "/", "////////", "k", "K7/8/8/8/8/8/8/k6P", "P7/8/8/8/8/8/8/k6K",
        "kk6/8/8/8/8/8/8/K7", "k7/8/8/8/8/8/8/8", "QQQQQQQQ/QQQQQQQQ/Q7/8/8/8/8/k6K", "k6K/8/8/8/8/8/8/8", "8/8/8/8/8/8/8/Kk6", "rnbqkbnr/pppppppp/8/8/4P3/8/PPPP1PPP/RNBQKBNR",
        "8/8/8/8/8/8/8/8 ", "8/8/8/8//8/8/8", "8/8/8/8/8/8/8/8/8/8/8/8/8/8/8/8", "1111111k/8/8/8/8/8/8/K7", "k7/8/8/8/8/8/8/K7/", "r3k2r/pppppppp/8/8/8/8/PPPPPPPP/R3K2R", "R3K2R/8/8/8/8/8/8/r3k2r",
    ];
    let sides = ["w", "b", "W", "", "x", "wb", "\u{e9}"];
    let castlings = ["-", "KQkq", "K", "q", "qkQK", "KK", "", "x", "\u{e9}"];
    let eps = ["-", "e3", "e6", "d6", "d3", "a4", "i3", "e9", "", "\u{e9}3"];
    let counters = ["0", "1", "99", "65535", "65536", "-1", "", "x", "+5", "\u{e9}"];
    let nb = boards.len();
    run.par_shards("FEN field product (40 boards x 7 sides x 9 castlings x 10 marks x 10 x 10 counters)", nb, |ctx, bi| {
        for s in sides {
            for c in castlings {
                for e in eps {
                    for h in counters {
                        for n in counters {
                            let t = format!("{} {} {} {} {} {}", boards[bi], s, c, e, h, n);
                            f(ctx, &t);
                        }
                    }
                    // records with fewer or more fields, other separators
                    for t in [
                        format!("{} {} {} {}", boards[bi], s, c, e),
                        format!("{} {} {}", boards[bi], s, c),
                        format!("{} {}", boards[bi], s),
                        format!("{} {} {} {} 0", boards[bi], s, c, e),
                        format!("{} {} {} {} 0 1 ", boards[bi], s, c, e),
                        format!("{} {} {} {} 0 1 extra", boards[bi], s, c, e),
                        format!("{}  {} {} {} 0 1", boards[bi], s, c, e),
                        format!("{}\t{} {} {} 0 1", boards[bi], s, c, e),
                        format!(" {} {} {} {} 0 1", boards[bi], s, c, e),
                    ] {
                        f(ctx, &t);
                    }
                }
            }
        }
    });
}

/// single-edit neighbourhoods of the FEN records of 40 positions
pub fn fen_edits(run: &mut Run, f: &(dyn Fn(&mut Ctx, &str) + Sync)) {
    let p30 = strs::p30();
    let mut fens: Vec<String> = p30.iter().map(text::fen).collect();
    fens.extend(crate::universe::seeds().iter().take(10).map(text::fen));
    run.par_shards(&format!("EDITS of the FEN records of {} positions", fens.len()), fens.len(), |ctx, i| {
        f(ctx, &fens[i]);
        strs::edits1(&fens[i], &SIGMA_FEN_EDIT, &mut |s| f(ctx, s));
    });
}

pub fn run(run: &mut Run) {
    run.counter_names = NAMES;
    run.assumptions = vec![
        "bound: all strings up to the stated length over one representative per byte class the parser distinguishes (incl. 2-, 3- and 4-byte characters), all single-edit neighbours of canonical texts, all double-edit neighbours of the canonical SAN / UCI texts of P30 moves and of 8 (thorough 44) FEN records, a field product for FEN, token-sequence products for move lists; nothing is claimed beyond these bounds".into(),
        "every call runs under catch_unwind in a child process; an abort is located through the crash-case slots".into(),
    ];
    let thorough = run.thorough();
    let p30 = strs::p30();
    let b4 = boards_of(&[p30[0], p30[9], p30[10], p30[23], p30[30], p30[31], p30[32], p30[33]]);
    let b12 = boards_of(&p30[..12]);
    let none: Vec<(String, Board)> = vec![];

    // (a) all strings over class alphabets
    for len in 0..=3 {
        all_over(run, "SMALL (Coord, Cell, Color, CastlingRights)", &SIGMA_SMALL, len, &|ctx, t| small_text(ctx, t));
    }
    run.par_shards("SMALL: every single char as a string (all 1,112,064 chars)", 64, |ctx, sh| {
        let mut buf = String::new();
        let lo = sh as u32 * 0x4400;
        for c in lo..(lo + 0x4400).min(0x110000) {
            if let Some(ch) = char::from_u32(c) {
                buf.clear();
                buf.push(ch);
                small_text(ctx, &buf);
            }
        }
    });
    for len in 0..=(if thorough { 7 } else { 6 }) {
        all_over(run, "UCI (uci::Move::from_str)", &strs::SIGMA_UCI, len, &|ctx, t| uci_text(ctx, t, &none));
    }
    for len in 0..=(if thorough { 6 } else { 5 }) {
        all_over(run, "UCI on 8 positions (from_uci, from_uci_semilegal, from_uci_legal, Uci.make)", &strs::SIGMA_UCI, len, &|ctx, t| uci_text(ctx, t, &b4));
    }
    for len in 0..=(if thorough { 7 } else { 6 }) {
        all_over(run, "SAN (san::Move::from_str)", &strs::SIGMA_SAN, len, &|ctx, t| san_text(ctx, t, &none));
    }
    for len in 0..=(if thorough { 6 } else { 5 }) {
        all_over(run, "SAN on 8 positions (Move::from_san)", &strs::SIGMA_SAN, len, &|ctx, t| san_text(ctx, t, &b4));
    }
    {
        let ball = boards_of(&p30);
        for len in 0..=(if thorough { 5 } else { 4 }) {
            all_over(run, "SAN on all P30 positions (Move::from_san)", &strs::SIGMA_SAN, len, &|ctx, t| san_text(ctx, t, &ball));
        }
    }
    for len in 0..=(if thorough { 5 } else { 4 }) {
        all_over(run, "FEN short strings (RawBoard/Board/MoveChain::from_fen)", &SIGMA_FEN_EDIT, len, &|ctx, t| fen_text(ctx, t));
    }

    // (b) single-edit neighbours of canonical texts
    run.par_shards("EDITS of the 64 square names and of all 20,481 UCI strings", 64, |ctx, f| {
        let u = all_uci();
        strs::edits1(&text::sq_name(f), &SIGMA_SMALL, &mut |s| small_text(ctx, s));
        for i in 0..320 {
            strs::edits1(&u[f * 320 + i].0, &strs::SIGMA_UCI, &mut |s| uci_text(ctx, s, &none));
            if thorough {
                strs::edits2(&u[f * 320 + i].0, &strs::SIGMA_UCI, &mut |s| uci_text(ctx, s, &none));
            }
        }
        if f == 0 {
            strs::edits1("0000", &strs::SIGMA_UCI, &mut |s| uci_text(ctx, s, &b4));
            for t in ["-", "KQkq", "Kq", "w", "b", "K", "p", "."] {
                strs::edits1(t, &SIGMA_SMALL, &mut |s| small_text(ctx, s));
            }
        }
    });
    run.par_shards("EDITS of every canonical SAN text of P30 (in its position)", p30.len(), |ctx, i| {
        let p = p30[i];
        let Some(b) = board_of(&p) else { return };
        let bs = vec![(text::fen(&p), b)];
        let legal = p.legal();
        for &m in &legal {
            let t = text::san(&p, &legal, m);
            strs::edits1(&t, &strs::SIGMA_SAN, &mut |s| san_text(ctx, s, &bs));
            strs::edits1(&text::uci(m), &strs::SIGMA_UCI, &mut |s| uci_text(ctx, s, &bs));
        }
    });
    fen_edits(run, &|ctx, t| fen_text(ctx, t));
    // (b2) double-edit neighbours (every edit of every edit) of the canonical SAN and UCI text of
    // every legal move of all P30 positions, read in its position
    {
        let np = p30.len();
        const SPLIT: usize = 8;
        run.par_shards(&format!("EDITS2: double-edit neighbours of the canonical SAN / UCI text of every legal move of {} P30 positions (in position)", np), np * SPLIT, |ctx, sh| {
            let p = p30[sh / SPLIT];
            let Some(b) = board_of(&p) else { return };
            let bs = vec![(text::fen(&p), b)];
            let legal = p.legal();
            let mut seen = std::collections::HashSet::new();
            for (k, &m) in legal.iter().enumerate() {
                if k % SPLIT != sh % SPLIT {
                    continue;
                }
                let t = text::san(&p, &legal, m);
                if seen.insert(t.clone()) {
                    strs::edits2(&t, &strs::SIGMA_SAN, &mut |s| san_text(ctx, s, &bs));
                }
                let u = text::uci(m);
                if seen.insert(u.clone()) {
                    strs::edits2(&u, &strs::SIGMA_UCI, &mut |s| uci_text(ctx, s, &bs));
                }
            }
        });
        // double-edit neighbours of FEN records (split on the first edit); quick: 8 records, thorough: the 44 of EDITS
        let mut fens: Vec<String> = [1usize, 8, 0, 4, 5, 22, 26, 27].iter().map(|&i| text::fen(&p30[i])).collect();
        if thorough {
            fens = p30.iter().map(text::fen).collect();
            fens.extend(crate::universe::seeds().iter().take(10).map(text::fen));
        }
        const FSPLIT: usize = 32;
        run.par_shards(&format!("EDITS2: double-edit neighbours of the FEN records of {} positions", fens.len()), fens.len() * FSPLIT, |ctx, sh| {
            strs::edits2_slice(&fens[sh / FSPLIT], &SIGMA_FEN_EDIT, sh % FSPLIT, FSPLIT, &mut |s| fen_text(ctx, s));
        });
    }
    // SAN texts in positions where many pieces of one kind reach one square (ambiguity paths):
    // the canonical and the undisambiguated text of every pseudo-legal move, in its position
    run.par_shards("SANMANY positions x canonical / undisambiguated SAN of every move", crate::universe::SANMANY_SHARDS, |ctx, sh| {
        crate::universe::sanmany(sh, &mut |p| {
            let Some(b) = board_of(p) else { return };
            let bs = vec![(String::new(), b)];
            let legal = p.legal();
            let mut seen = std::collections::HashSet::new();
            for m in p.pseudo_vec() {
                let mut ts = vec![text::san_naive(p, m), text::uci(m)];
                if legal.contains(&m) {
                    ts.push(text::san(p, &legal, m));
                }
                for t in ts {
                    if seen.insert(t.clone()) {
                        san_text_pos(ctx, &t, p, &bs);
                    }
                }
            }
        });
    });

    // (c) FEN field product
    fen_product(run, &|ctx, t| fen_text(ctx, t));

    // (d) move lists: token sequences x separators
    {
        let seps = [" ", "  ", "\t", "\n", "\u{a0}", ""];
        run.par_shards("LISTS: token sequences of length <= 3 over per-position token classes x separators, 12 positions", b12.len(), |ctx, bi| {
            let (fen, b) = &b12[bi];
            let p = text::read_fen(fen).unwrap();
            let legal = p.legal();
            let pseudo = p.pseudo_vec();
            let mut tokens: Vec<String> = Vec::new();
            for m in legal.iter().take(3) {
                tokens.push(text::uci(*m));
            }
            if let Some(m) = pseudo.iter().find(|m| !legal.contains(m)) {
                tokens.push(text::uci(*m));
            }
            tokens.extend(["a1a1", "e2e5", "0000", "e2e", "e2e4qq", "\u{e9}2e4", "e2\u{20ac}", "\u{1f600}", "x"].iter().map(|s| s.to_string()));
            let one = vec![(fen.clone(), b.clone())];
            let n = tokens.len();
            for l in 0..=3usize {
                for idx in 0..n.pow(l as u32) {
                    let mut x = idx;
                    let mut seq = Vec::new();
                    for _ in 0..l {
                        seq.push(tokens[x % n].as_str());
                        x /= n;
                    }
                    for sep in seps {
                        for (lead, trail) in [("", ""), (" ", " "), ("\n", "\t")] {
                            let t = format!("{}{}{}", lead, seq.join(sep), trail);
                            list_text(ctx, &t, &one);
                        }
                    }
                }
            }
            // second moves that are legal only after the first
            if let Some(&m) = legal.first() {
                let q = p.apply(m);
                for m2 in q.legal().iter().take(4) {
                    list_text(ctx, &format!("{} {}", text::uci(m), text::uci(*m2)), &one);
                    list_text(ctx, &format!("{} {} {}", text::uci(m), text::uci(*m2), text::uci(m)), &one);
                }
            }
        });
    }
    // (f) the longest records: boards whose every rank alternates man / empty (71-character board
    // field), every colouring by rank halves, with short, long and omitted counters
    run.par_shards("LONGEST FEN records (alternating ranks: 2^8 boards x 2 sides x 6 counter / rights forms)", 16, |ctx, sh| {
        for code in (0..256usize).filter(|c| c % 16 == sh) {
            let mut rows: Vec<String> = Vec::new();
            for rank in (0..8).rev() {
                let black = rank >= 4;
                let men = if black { ["n", "p", "b", "r", "q", "p", "n", "p"] } else { ["N", "P", "B", "R", "Q", "P", "N", "P"] };
                let king = if black { "k" } else { "K" };
                let odd = code >> rank & 1 != 0;
                let mut row = String::new();
                for fl in 0..8usize {
                    if (fl % 2 == 1) == odd {
                        row.push('1');
                    } else if (rank == 0 || rank == 7) && (fl == 0 || fl == 1) && row.chars().all(|c| c == '1') {
                        row.push_str(king);
                    } else {
                        // pawns stay off the first and last rank
                        let m = men[(fl + rank) % 8];
                        row.push_str(if (rank == 0 || rank == 7) && (m == "p" || m == "P") { if black { "n" } else { "N" } } else { m });
                    }
                }
                rows.push(row);
            }
            let board = rows.join("/");
            for side in ["w", "b"] {
                for tail in ["- - 0 1", "- - 65535 65535", "- - 10000", "- -", "- - 99999 1", "KQkq - 65535 65535"] {
                    fen_text(ctx, &format!("{} {} {}", board, side, tail));
                }
            }
        }
    });
    // (e) long strings: runs of one symbol, alone and around / inside canonical stems; FEN fields
    // replaced by runs; a UCI list of k legal tokens
    {
        let jobs: Vec<(u8, usize)> = [P_SMALL, P_UCI, P_SAN, P_FEN, P_LIST].iter().flat_map(|&ps| (0..longstr_alphabet(ps).len()).map(move |i| (ps, i))).collect();
        let b2 = longstr_boards();
        let ks = LONG_KS;
        run.par_shards(&format!("LONGSTR: runs of one symbol of lengths {:?}, alone, before, after and inside canonical stems; FEN fields replaced by runs; move lists of that many legal tokens", ks), jobs.len(), |ctx, j| {
            let (ps, sym) = jobs[j];
            for shape in 0..LONG_SHAPES {
                for stem in 0..longstr_stems(ps).len().max(1) {
                    for &k in ks.iter() {
                        if let Some(t) = longstr_text(ps, sym, stem, shape, k) {
                            longstr_run(ctx, ps, sym, stem, shape, k, &t, &b2);
                        }
                    }
                }
            }
        });
    }
    run.total.traces = run.total.cnt[RT];
    run.total.samples.push(json!({"uci": "a\u{e9}4", "san": "N", "fen": "8/8/8/8/8/8/8/8 w - - 0 1", "list": "e2e4  e7e5\u{a0}g1f3"}));
}

pub const LONG_KS: [usize; 24] = [7, 8, 9, 15, 16, 17, 31, 32, 33, 63, 64, 65, 127, 128, 129, 255, 256, 257, 1023, 1024, 1025, 65535, 65536, 65537];
const LONG_SHAPES: usize = 6;

fn longstr_alphabet(parser: u8) -> &'static [&'static str] {
    match parser {
        P_UCI => &strs::SIGMA_UCI,
        P_SAN => &strs::SIGMA_SAN,
        P_FEN => &SIGMA_FEN_EDIT,
        P_LIST => &[" "],
        _ => &SIGMA_SMALL,
    }
}

fn longstr_stems(parser: u8) -> &'static [&'static str] {
    match parser {
        P_UCI => &["e2e4", "e7e8q", "0000"],
        P_SAN => &["Nf3", "exd5", "O-O", "O-O-O", "e8=Q+", "Nbd7#", "e4"],
        P_FEN => &["rnbqkbnr/pppppppp/8/8/8/8/PPPPPPPP/RNBQKBNR", "w", "KQkq", "-", "0", "1"],
        P_LIST => &["g1f3 g8f6 f3g1 f6g8"],
        _ => &["e4", "KQkq", "w", "P"],
    }
}

/// the long string with the given descriptor, if that shape exists for the parser
fn longstr_text(parser: u8, sym: usize, stem: usize, shape: usize, k: usize) -> Option<String> {
    let c = *longstr_alphabet(parser).get(sym)?;
    let stems = longstr_stems(parser);
    let run = c.repeat(k);
    match (parser, shape) {
        (P_LIST, 5) => {
            // k legal tokens from the initial position (the knights' four-ply cycle)
            if stem != 0 || sym != 0 || k > 4100 {
                return None;
            }
            let cyc = ["g1f3", "g8f6", "f3g1", "f6g8"];
            Some((0..k).map(|i| cyc[i % 4]).collect::<Vec<_>>().join(" "))
        }
        (P_LIST, _) => None,
        (_, 5) => None,
        (_, 0) => (stem == 0).then_some(run),
        (P_FEN, 4) => {
            // the initial record with field `stem` replaced by the run
            let mut f: Vec<String> = stems.iter().map(|x| x.to_string()).collect();
            *f.get_mut(stem)? = run;
            Some(f.join(" "))
        }
        (_, 4) => None,
        (P_FEN, _) => {
            let rec = stems.join(" ");
            if stem != 0 {
                return None;
            }
            Some(match shape {
                1 => format!("{}{}", rec, run),
                2 => format!("{}{}", run, rec),
                _ => format!("{}{}{}", &rec[..1], run, &rec[1..]),
            })
        }
        (_, _) => {
            let st = *stems.get(stem)?;
            Some(match shape {
                1 => format!("{}{}", st, run),
                2 => format!("{}{}", run, st),
                _ => format!("{}{}{}", &st[..1], run, &st[1..]),
            })
        }
    }
}

/// the initial position and one P30 position
fn longstr_boards() -> Vec<(String, Board)> {
    let init = text::read_fen("rnbqkbnr/pppppppp/8/8/8/8/PPPPPPPP/RNBQKBNR w KQkq - 0 1").expect("initial fen");
    boards_of(&[init, strs::p30()[9]])
}

#[allow(clippy::too_many_arguments)]
fn longstr_run(ctx: &mut Ctx, parser: u8, sym: usize, stem: usize, shape: usize, k: usize, t: &str, boards: &[(String, Board)]) {
    let first_new = ctx.viol.len();
    // the crash slot holds the descriptor (texts too long for a slot do not overwrite it); cases
    // carry the descriptor instead of the text
    set_slot(7, &[parser, sym as u8, stem as u8, shape as u8, (k & 0xff) as u8, (k >> 8 & 0xff) as u8, (k >> 16 & 0xff) as u8]);
    match parser {
        P_FEN => fen_text(ctx, t),
        P_UCI => uci_text(ctx, t, boards),
        P_SAN => san_text(ctx, t, boards),
        P_LIST => list_text(ctx, t, &boards[..1]),
        _ => small_text(ctx, t),
    }
    for v in ctx.viol[first_new..].iter_mut() {
        v.case = json!({"kind": "longstr", "parser": parser, "sym": sym, "stem": stem, "shape": shape, "k": k});
    }
}

pub fn replay(case: &Value, ctx: &mut Ctx) {
    if case["kind"].as_str() == Some("longstr") {
        let g = |k: &str| case[k].as_u64().unwrap_or(0) as usize;
        let b2 = longstr_boards();
        if let Some(t) = longstr_text(g("parser") as u8, g("sym"), g("stem"), g("shape"), g("k")) {
            longstr_run(ctx, g("parser") as u8, g("sym"), g("stem"), g("shape"), g("k"), &t, &b2);
        }
        return;
    }
    let bytes: Vec<u8> = case["text_bytes"].as_array().map(|a| a.iter().filter_map(|x| x.as_u64().map(|b| b as u8)).collect()).unwrap_or_default();
    let Ok(t) = String::from_utf8(bytes) else { return };
    let boards: Vec<(String, Board)> = match case["fen"].as_str() {
        Some(f) => text::read_fen(f).and_then(|p| board_of(&p)).map(|b| vec![(f.to_string(), b)]).unwrap_or_default(),
        None => boards_of(&strs::p30()[..12]),
    };
    match case["parser"].as_u64().unwrap_or(0) as u8 {
        P_FEN => fen_text(ctx, &t),
        P_UCI => uci_text(ctx, &t, &boards),
        P_SAN => san_text(ctx, &t, &boards),
        P_LIST => list_text(ctx, &t, &boards),
        _ => small_text(ctx, &t),
    }
}
