//! C19 - unchecked internals never go out of bounds on any valid position
//!
//! (a) every table index computation over its whole input domain (checked build + hook H2);
//! (b) a sweep of every generator and query over the position universes in the checked build
//!     (std ub_checks + arrayvec capacity assertion armed) and again in the release build, both
//!     compared with the reference model;
//! (c) the number of semilegal moves (counted through a safe, unbounded sink) is <= 256 in every
//!     explored state, including the neighbourhoods of the best known high-mobility positions.

use crate::bind::*;
use crate::engine::*;
use crate::model::text;
use crate::model::*;
use crate::props::common::*;
use crate::universe as uni;
use owlchess::movegen::{cell_attackers, legal, semilegal};
use owlchess::moves::{make_move_unchecked, unmake_move_unchecked};
use owlchess::verif as hk;
use owlchess::{Board, CastlingRights, Cell, Color, Coord, Move, RawBoard};
use serde_json::{json, Value};

pub const NAMES: &[&str] = &[
    "max_semilegal_moves",
    "max_legal_moves",
    "states_with_over_200_semilegal",
    "generator_calls",
    "query_calls",
    "table_lookups",
    "max_table_index_rook",
    "max_table_index_bishop",
    "model_impl_validity_disagreements",
];
const MAXSEMI: usize = 0;
const MAXLEGAL: usize = 1;
const OVER200: usize = 2;
const GEN: usize = 3;
const QUERY: usize = 4;
const TABLE: usize = 5;
const MAXROOK: usize = 6;
const MAXBISHOP: usize = 7;
const DISAGREE: usize = 8;
pub const MAX_IDX: &[usize] = &[MAXSEMI, MAXLEGAL, MAXROOK, MAXBISHOP];

fn keys(v: &[Move]) -> Vec<MKey> {
    let mut k: Vec<MKey> = v.iter().map(key_of_move).collect();
    k.sort();
    k
}

pub fn check_pos(ctx: &mut Ctx, p: &Pos, b: &Board) {
    ctx.states += 1;
    // (c) the true count through a safe sink
    let mut sink: Vec<Move> = Vec::new();
    semilegal::gen_all_into(b, &mut sink);
    ctx.max(MAXSEMI, sink.len() as u64);
    if sink.len() > 200 {
        ctx.add(OVER200, 1);
    }
    if sink.len() > 256 {
        ctx.violate(case_pos(p, "semilegal count"), format!("{} semilegal moves: more than the 256 the move list can hold", sink.len()));
        return; // the fixed-capacity generators must not be called
    }
    // (b) every generator with its fixed-capacity list, against the model
    let pseudo = p.pseudo_vec();
    let mut want: Vec<MKey> = pseudo.iter().map(|&m| key_of_mv(p, m)).collect();
    want.sort();
    let g = semilegal::gen_all(b);
    ctx.add(GEN, 11);
    if g.as_slice() != sink.as_slice() || keys(&g) != want {
        ctx.violate(case_pos(p, "semilegal::gen_all"), "fixed-capacity semilegal::gen_all differs from the safe sink or from the pseudo-legal moves".into());
    }
    let n = semilegal::gen_capture(b).len() + semilegal::gen_simple(b).len();
    let n2 = semilegal::gen_capture(b).len() + semilegal::gen_simple_no_promote(b).len() + semilegal::gen_simple_promote(b).len();
    if n != g.len() || n2 != g.len() {
        ctx.violate(case_pos(p, "semilegal parts"), "semilegal generator parts do not add up".into());
    }
    let legal_model: Vec<Mv> = pseudo.iter().cloned().filter(|&m| p.is_legal(m)).collect();
    let mut want_l: Vec<MKey> = legal_model.iter().map(|&m| key_of_mv(p, m)).collect();
    want_l.sort();
    let gl = legal::gen_all(b);
    ctx.max(MAXLEGAL, gl.len() as u64);
    if keys(&gl) != want_l {
        ctx.violate(case_pos(p, "legal::gen_all"), "legal::gen_all differs from the rules".into());
    }
    let nl = legal::gen_capture(b).len() + legal::gen_simple(b).len();
    let nl2 = legal::gen_capture(b).len() + legal::gen_simple_no_promote(b).len() + legal::gen_simple_promote(b).len();
    if nl != gl.len() || nl2 != gl.len() {
        ctx.violate(case_pos(p, "legal parts"), "legal generator parts do not add up".into());
    }
    // queries
    for s in 0..64usize {
        for by in 0..2u8 {
            ctx.add(QUERY, 1);
            if bb_to_model(cell_attackers(b, oc(s), ocolor(by))) != p.attackers(s, by) {
                ctx.violate(case_pos(p, "cell_attackers"), format!("cell_attackers({}, {}) differs from the rules", text::sq_name(s), by));
            }
        }
    }
    ctx.add(QUERY, 4);
    if b.has_legal_moves() != !legal_model.is_empty() || b.is_check() != p.in_check(p.stm) {
        ctx.violate(case_pos(p, "has_legal_moves / is_check"), "has_legal_moves or is_check differs from the rules".into());
    }
    let _ = b.calc_outcome();
    let _ = b.checkers();
    // text output of the position (fixed buffers would live here too)
    ctx.add(QUERY, 3);
    let fen = b.as_fen();
    if fen != text::fen(p) {
        ctx.violate(case_pos(p, "as_fen"), format!("as_fen = `{}`", fen));
    }
    let _ = b.pretty(owlchess::board::PrettyStyle::Ascii).to_string();
    let _ = b.pretty(owlchess::board::PrettyStyle::Utf8).to_string();
    // validation of every generated move, make / unmake, text
    let mut s = b.clone();
    for mv in g.iter() {
        ctx.transitions += 1;
        ctx.traces += 1;
        let l = mv.validate(b).is_ok();
        let u = unsafe { make_move_unchecked(&mut s, *mv) };
        let att = s.is_opponent_king_attacked();
        unsafe { unmake_move_unchecked(&mut s, *mv, u) };
        if l == att {
            ctx.violate(case_pos(p, "validate vs make"), format!("validate and make disagree on {}", mv));
        }
        if l {
            if let Ok(sm) = mv.san(b) {
                if Move::from_san(&sm.to_string(), b) != Ok(*mv) {
                    ctx.violate(case_pos(p, "san round trip"), format!("SAN round trip of {} fails", mv));
                }
                // every output style goes through its formatting buffers
                for style in [owlchess::moves::Style::San, owlchess::moves::Style::SanUtf8, owlchess::moves::Style::Uci] {
                    match mv.styled(b, style) {
                        Ok(t) => {
                            let _ = t.to_string();
                        }
                        Err(e) => ctx.violate(case_pos(p, "styled"), format!("styled({:?}) refuses the legal move {}: {}", style, mv, e)),
                    }
                }
            }
        }
        if Move::from_uci(&mv.to_string(), b) != Ok(*mv) {
            ctx.violate(case_pos(p, "uci round trip"), format!("UCI round trip of {} fails", mv));
        }
    }
    if full(&s) != full(b) {
        ctx.violate(case_pos(p, "make/unmake"), "board changed by make/unmake sweep".into());
    }
    if ctx.samples.is_empty() || sink.len() as u64 >= ctx.cnt[MAXSEMI] && sink.len() > 100 && ctx.samples.len() < 3 {
        ctx.samples.push(json!({"fen": text::fen(p), "semilegal_moves": sink.len(), "legal_moves": gl.len()}));
    }
}

/// text output and generator sizes only (for the large dense family)
pub fn check_pos_slim(ctx: &mut Ctx, p: &Pos, b: &Board) {
    ctx.states += 1;
    ctx.transitions += 1;
    ctx.traces += 1;
    let mut sink: Vec<Move> = Vec::new();
    semilegal::gen_all_into(b, &mut sink);
    ctx.max(MAXSEMI, sink.len() as u64);
    if sink.len() > 256 {
        ctx.violate(case_pos(p, "semilegal count"), format!("{} semilegal moves", sink.len()));
        return;
    }
    ctx.add(GEN, 2);
    if semilegal::gen_all(b).len() != sink.len() || sink.len() != p.pseudo_vec().len() {
        ctx.violate(case_pos(p, "semilegal::gen_all"), "semilegal::gen_all differs in size from the safe sink or the pseudo-legal moves".into());
    }
    ctx.max(MAXLEGAL, legal::gen_all(b).len() as u64);
    ctx.add(QUERY, 3);
    let fen = b.as_fen();
    if fen != text::fen(p) {
        ctx.violate(case_pos(p, "as_fen"), format!("as_fen = `{}`", fen));
    }
    let _ = b.pretty(owlchess::board::PrettyStyle::Ascii).to_string();
    let _ = b.pretty(owlchess::board::PrettyStyle::Utf8).to_string();
}

/// Appending into a caller-supplied move list through the safe `_into` interface until it is
/// full: the overflow must be refused by the checked capacity test (a panic that names the
/// capacity error), never reach the unchecked path (arrayvec's debug assertion) and never leave
/// more elements than the capacity.
fn append_until_full(ctx: &mut Ctx, p: &Pos) {
    use owlchess::movegen::MoveList;
    let Some(b) = board_of(p) else { return };
    ctx.states += 1;
    let per = p.pseudo_vec().len();
    if per == 0 {
        return;
    }
    let case = || case_pos(p, "append until full");
    let mut list = Box::new(MoveList::new());
    let mut rounds = 0;
    loop {
        let before = list.len();
        let r = guarded(|| semilegal::gen_all_into(&b, &mut *list));
        ctx.transitions += 1;
        rounds += 1;
        match r {
            Ok(()) => {
                if list.len() != before + per {
                    ctx.violate(case(), format!("gen_all_into appended {} moves, expected {}", list.len() - before, per));
                    return;
                }
                if list.len() > 256 {
                    ctx.violate(case(), format!("move list holds {} elements, more than its capacity of 256 (write past the buffer)", list.len()));
                    return;
                }
            }
            Err(msg) => {
                // refusal: must be the checked capacity error, raised before anything is written out of bounds
                if msg.contains("len < Self::CAPACITY") || msg.contains("unsafe precondition") {
                    ctx.violate(case(), format!("overflowing a caller-supplied MoveList reached the UNCHECKED push (monitor: {})", msg));
                } else if before + per <= 256 {
                    ctx.violate(case(), format!("gen_all_into panicked although {} + {} moves fit: {}", before, per, msg));
                }
                if list.len() > 256 {
                    ctx.violate(case(), format!("move list holds {} elements after a refused append", list.len()));
                }
                return;
            }
        }
        if rounds > 300 {
            return;
        }
    }
}

/// (a) every index computation over its whole input domain
fn table_indices(ctx: &mut Ctx) {
    // magic lookups: every square x every subset of the geometric ray set (the index depends on
    // nothing else, see C15); the hook reports where the lookup lands
    for s in 0..64usize {
        for rook in [true, false] {
            let dirs: &[(i32, i32)] = if rook { &ORTH } else { &DIAG };
            let mut rays = Vec::new();
            for &(df, dr) in dirs {
                let (mut x, mut y) = (file_of(s) + df, rank_of(s) + dr);
                while on(x, y) {
                    rays.push(sq(x, y));
                    x += df;
                    y += dr;
                }
            }
            let rays_bb: Vec<Coord> = rays.iter().map(|&t| oc(t)).collect();
            for x in 0..(1u64 << rays.len()) {
                ctx.states += 1;
                ctx.add(TABLE, 1);
                let mut occ = owlchess::Bitboard::EMPTY;
                for (i, c) in rays_bb.iter().enumerate() {
                    if x >> i & 1 != 0 {
                        occ.set(*c);
                    }
                }
                // also with everything off the rays occupied
                for o in [occ, occ | !rays_bb.iter().fold(owlchess::Bitboard::EMPTY, |a, c| a.with(*c))] {
                    let v = if rook { hk::rook_magic(oc(s), o) } else { hk::bishop_magic(oc(s), o) };
                    ctx.max(if rook { MAXROOK } else { MAXBISHOP }, (v.offset + v.idx) as u64);
                    if v.offset + v.idx >= v.table_len {
                        ctx.violate(
                            json!({"kind": "table", "rook": rook, "square": s, "occ": format!("{:#x}", o.as_raw())}),
                            format!("{} lookup from {} lands at {} + {} in a table of {} entries", if rook { "rook" } else { "bishop" }, text::sq_name(s), v.offset, v.idx, v.table_len),
                        );
                    } else {
                        // the real lookup, with ub_checks armed in the checked build
                        let _ = if rook { hk::rook(oc(s), o) } else { hk::bishop(oc(s), o) };
                    }
                }
            }
        }
        ctx.add(TABLE, 4);
        let _ = (hk::king(oc(s)), hk::knight(oc(s)), hk::pawn(Color::White, oc(s)), hk::pawn(Color::Black, oc(s)));
        for t in 0..64usize {
            ctx.add(TABLE, 4);
            let _ = (hk::is_bishop_valid(oc(s), oc(t)), hk::is_rook_valid(oc(s), oc(t)), hk::bishop_strict(oc(s), oc(t)), hk::rook_strict(oc(s), oc(t)));
        }
    }
    // Zobrist tables: every cell on every square, every rights value, every mark
    for cell in Cell::iter() {
        for s in 0..64usize {
            ctx.add(TABLE, 1);
            let mut r = RawBoard::empty();
            r.put(Coord::from_index(s), cell);
            let _ = r.zobrist_hash();
        }
    }
    for i in 0..16 {
        for s in 0..64usize {
            ctx.add(TABLE, 2);
            let mut r = RawBoard::empty();
            r.castling = CastlingRights::from_index(i);
            r.ep_source = Some(Coord::from_index(s));
            let _ = r.zobrist_hash();
        }
    }
    ctx.transitions += 1;
}

pub const MAXMOB_FENS: [&str; 3] = [
    "R6R/3Q4/1Q4Q1/4Q3/2Q4Q/Q4Q2/pp1Q4/kBNN1KB1 w - - 0 1",
    "3Q4/1Q4Q1/4Q3/2Q4R/Q4Q2/3Q4/1Q4Rp/1K1BBNNk w - - 0 1",
    "Q4Q2/2Q4Q/4Q3/1Q4Q1/3Q4/Q4Q2/BnQ4Q/knKnQQ1q w - - 0 1",
];

/// the relocation / re-typing neighbourhood of the high-mobility positions
fn maxmob(run: &mut Run, two_steps: bool) {
    let mut bases: Vec<Pos> = Vec::new();
    for f in MAXMOB_FENS {
        let p = text::read_fen(f).expect("maxmob fen");
        bases.push(p);
        bases.push(crate::universe::mirror_colours(&p));
    }
    // one step: move one man to any empty square, or change its type, or remove it
    let step = |p: &Pos, f: &mut dyn FnMut(&Pos)| {
        for s in 0..64usize {
            let c = p.b[s];
            if c == EMPTY {
                continue;
            }
            if kind(c) != K {
                let mut q = *p;
                q.b[s] = EMPTY;
                f(&q);
                for t in [P, N, B, R, Q] {
                    if t != kind(c) && !(t == P && (s / 8 == 0 || s / 8 == 7)) {
                        let mut q = *p;
                        q.b[s] = mk(colour(c), t);
                        f(&q);
                    }
                }
            }
            for t in 0..64usize {
                if p.b[t] != EMPTY || (kind(c) == P && (t / 8 == 0 || t / 8 == 7)) {
                    continue;
                }
                let mut q = *p;
                q.b[s] = EMPTY;
                q.b[t] = c;
                f(&q);
            }
        }
    };
    let mut firsts: Vec<Pos> = Vec::new();
    for b in &bases {
        firsts.push(*b);
        step(b, &mut |q| firsts.push(*q));
    }
    run.par_shards(
        &format!("MAXMOB ({} high-mobility positions, {}-step relocation / re-typing neighbourhood)", bases.len(), if two_steps { 2 } else { 1 }),
        firsts.len(),
        |ctx, sh| {
            let p = firsts[sh];
            if is_valid_normal(&p) {
                visit(ctx, &p, DISAGREE, &check_pos);
            }
            if two_steps {
                step(&p, &mut |q| {
                    if is_valid_normal(q) {
                        visit(ctx, q, DISAGREE, &check_pos);
                    }
                });
            }
        },
    );
}

/// repetition lines: a four-ply cycle repeated eight times (the start position occurs nine times)
const REP_LINES: [(&str, [&str; 4]); 3] = [
    ("rnbqkbnr/pppppppp/8/8/8/8/PPPPPPPP/RNBQKBNR w KQkq - 0 1", ["g1f3", "g8f6", "f3g1", "f6g8"]),
    ("4k3/8/8/8/8/8/8/R3K3 w - - 0 1", ["a1a2", "e8d8", "a2a1", "d8e8"]),
    ("r3k2r/p1ppqpb1/bn2pnp1/3PN3/1p2P3/2N2Q1p/PPPBBPPP/R3K2R w - - 0 1", ["a1b1", "a8b8", "b1a1", "b8a8"]),
];

fn chain_line(family: u8, idx: usize, a: usize, b: usize, max: usize) -> Option<(Pos, Vec<Mv>)> {
    if family == 0 {
        let seeds = uni::seeds();
        let s = *seeds.get(idx)?;
        Some((s, uni::long_line(&s, a, b, max)))
    } else {
        let (fen, cyc) = REP_LINES.get(idx)?;
        let start = text::read_fen(fen)?;
        let mut p = start;
        let mut v = Vec::new();
        for i in 0..max.min(32) {
            let m = p.legal().into_iter().find(|m| text::uci(*m) == cyc[i % 4])?;
            v.push(m);
            p = p.apply(m);
        }
        Some((start, v))
    }
}

/// CHAINSWEEP: every query of a move chain after every push and every pop of a long or
/// repetitive game, under the monitors of the build configuration (no oracle beyond "no panic,
/// no abort": the values are judged by C13, C14 and C17)
fn chain_sweep(ctx: &mut Ctx, family: u8, idx: usize, a: usize, b: usize, max: usize) {
    use owlchess::chain::{GameStatusPolicy, NumberPolicy};
    use owlchess::moves::Style;
    use owlchess::types::OutcomeFilter;
    use owlchess::MoveChain;
    let Some((start, moves)) = chain_line(family, idx, a, b, max) else { return };
    let Some(board) = board_of(&start) else { return };
    set_slot_chainline(family, idx as u16, a as u16, b as u16, max as u16);
    let case = || json!({"kind": "chainline", "family": family, "idx": idx, "a": a, "b": b, "max": max});
    let r = guarded(|| {
        let mut chain = MoveChain::new(board.clone());
        let mut p = start;
        let mut n = 0u64;
        let probe = |c: &MoveChain| {
            let _ = c.calc_outcome();
            for f in [OutcomeFilter::Force, OutcomeFilter::Strict, OutcomeFilter::Relaxed] {
                let mut d = c.clone();
                let _ = d.set_auto_outcome(f);
                let _ = d.is_finished();
            }
            let mut w = c.walk();
            w.end();
            let _ = w.prev().map(|(b, m)| (b.zobrist_hash(), m));
            let _ = w.next().map(|(b, m)| (b.zobrist_hash(), m));
            let _ = c.last().as_fen();
        };
        probe(&chain);
        for &m in &moves {
            let Ok(mv) = to_move(&p, m) else { break };
            if chain.push(mv).is_err() {
                break;
            }
            p = p.apply(m);
            n += 1;
            probe(&chain);
        }
        let _ = chain.uci().to_string();
        for style in [Style::San, Style::SanUtf8, Style::Uci] {
            let _ = chain.styled(NumberPolicy::FromBoard, style, GameStatusPolicy::Show).to_string();
        }
        while chain.pop().is_some() {
            n += 1;
            probe(&chain);
        }
        n
    });
    match r {
        Ok(n) => {
            ctx.states += n + 1;
            ctx.transitions += n;
        }
        Err(msg) => ctx.violate(case(), format!("a chain query panicked during the sweep of this game: {}", msg)),
    }
}

fn chain_sweeps(run: &mut Run, thorough: bool) {
    let lp = uni::long_params(thorough);
    let lmax = uni::long_max(thorough);
    run.par_shards(&format!("CHAINSWEEP: every chain query after every push and pop of {} LONG games (<= {} plies) and {} repetition games (nine occurrences)", lp.len(), lmax, REP_LINES.len()), lp.len() + REP_LINES.len(), |ctx, i| {
        if i < lp.len() {
            let (s, a, b) = lp[i];
            chain_sweep(ctx, 0, s, a, b, lmax);
        } else {
            chain_sweep(ctx, 1, i - lp.len(), 0, 0, 32);
        }
    });
}

/// the DENSE family carries each board with short and with five-digit counters (for the FEN
/// properties); the sweep takes the short ones only
fn check_pos_slim_short(ctx: &mut Ctx, p: &Pos, b: &Board) {
    if p.hmc < 1000 {
        check_pos_slim(ctx, p, b)
    }
}

pub fn run(run: &mut Run) {
    run.counter_names = NAMES;
    run.max_idx = MAX_IDX;
    run.assumptions = vec![
        "checked configuration = opt-level 3 + debug assertions: std's ub_checks inside the monomorphised get_unchecked / unreachable_unchecked calls and arrayvec's push_unchecked capacity assertion abort on violation; the child-process wrapper turns an abort into a located violation".into(),
        "ptr::add's ub_check covers address overflow only, so the magic lookups' in-bounds property is decided through hook H2 (offset + index < table length) over the whole index domain".into(),
        "the universal bound 'no valid position has more than 256 semilegal moves' is NOT decidable by bounded enumeration; claimed: holds on every explored state, including the listed neighbourhoods of the best known high-mobility positions".into(),
    ];
    let thorough = run.thorough();
    run.seq("TABLE INDICES (whole input domain of every index computation)", |ctx| table_indices(ctx));
    let sel = if thorough {
        Sel { m3: true, ray: Some(3), ep: Some(false), castle: Some(false), promo: Some(false), reach: Some(4), occ: true, pin2: Some(3), sanmany: true, multicheck: Some(3), checkpin: Some(3), castle2: true, hemmed: true, counts: true, promorow: true, hist: Some((3, 2)), ..Default::default() }
    } else {
        Sel { m3: true, ep: Some(false), ep_spread_only: true, castle: Some(false), promo: Some(false), reach: Some(3), occ: true, sanmany: true, multicheck: Some(1), checkpin: Some(1), castle2: true, hemmed: true, counts: true, promorow: true, ..Default::default() }
    };
    run_universes(run, &sel, DISAGREE, &check_pos);
    run_universes(run, &Sel { dense: true, ..Default::default() }, DISAGREE, &check_pos_slim_short);
    maxmob(run, thorough);
    {
        let seeds = crate::universe::seeds();
        run.seq("APPEND: gen_all_into into one caller-supplied MoveList until it is full (22 seeds)", |ctx| {
            for p in &seeds {
                append_until_full(ctx, p);
            }
        });
    }
    chain_sweeps(run, thorough);
    spawn_release_leg(run, "release-configuration leg (same sweep, optimised build)");
    if thorough {
        // additional monitors (not the deciding step): AddressSanitizer build of the release
        // leg and a Miri replay of a small universe
        spawn_leg_exe(run, "AddressSanitizer leg (release build with -Zsanitizer=address, quick sweep)", "OWLMC_ASAN", "quick",
            &[("ASAN_OPTIONS", "detect_leaks=0:abort_on_error=1"), ("OWLMC_BUDGET_S", "600")], "release + AddressSanitizer");
        miri_leg(run);
    }
}

fn miri_leg(run: &mut Run) {
    let Ok(dir) = std::env::var("OWLMC_SRC") else {
        run.notes.push("Miri leg: OWLMC_SRC unset; skipped".into());
        return;
    };
    let t0 = std::time::Instant::now();
    let out = std::process::Command::new("timeout")
        .args(["1500", "cargo", "+nightly", "miri", "run", "--offline", "--", "mini"])
        .current_dir(&dir)
        .env("MIRIFLAGS", "-Zmiri-disable-isolation")
        .output();
    let Ok(out) = out else {
        run.notes.push("Miri leg: cannot run cargo +nightly miri; skipped".into());
        return;
    };
    let stdout = String::from_utf8_lossy(&out.stdout).to_string();
    let stderr = String::from_utf8_lossy(&out.stderr).to_string();
    let wall = t0.elapsed().as_secs_f64();
    if let Some(l) = stdout.lines().find(|l| l.starts_with("MINI-RESULT")) {
        let viol = !l.ends_with("violations=0");
        run.universes.push(json!({"universe": "Miri replay (mini universe: table lookups of 4 squares, M2 slice, REACH(1) slice, special positions, APPEND)", "result": l, "wall_s": wall.round()}));
        eprintln!("[C19] Miri replay: {} {:.0}s", l, wall);
        if viol {
            run.total.violate(json!({"kind": "section", "universe": "miri"}), format!("Miri replay reports violations: {}", stdout.lines().filter(|l| l.starts_with("MINI violation")).take(3).collect::<Vec<_>>().join(" | ")));
        }
    } else if stderr.contains("Undefined Behavior") {
        let ub: Vec<&str> = stderr.lines().filter(|l| l.contains("Undefined Behavior") || l.contains("-->")).take(4).collect();
        run.total.violate(json!({"kind": "section", "universe": "miri"}), format!("Miri reports undefined behaviour in the mini replay: {}", ub.join(" | ")));
    } else {
        run.notes.push(format!("Miri leg did not complete (status {:?}, {:.0}s); skipped - not a verdict", out.status, wall));
    }
}

pub fn leg(run: &mut Run) {
    run.counter_names = NAMES;
    run.max_idx = MAX_IDX;
    let thorough = run.thorough();
    run.seq("TABLE INDICES", |ctx| table_indices(ctx));
    // (the OCC family runs in the checked configuration only: the table lookups it exercises are
    // swept over their whole index domain by TABLE INDICES in both configurations)
    let sel = Sel { m3: true, ep: Some(false), ep_spread_only: true, castle: Some(false), promo: Some(false), reach: Some(3), occ: thorough, ..Default::default() };
    run_universes(run, &sel, DISAGREE, &check_pos);
    run_universes(run, &Sel { dense: true, ..Default::default() }, DISAGREE, &check_pos_slim_short);
    maxmob(run, thorough);
    let seeds = crate::universe::seeds();
    run.seq("APPEND: gen_all_into into one caller-supplied MoveList until it is full (22 seeds)", |ctx| {
        for p in &seeds {
            append_until_full(ctx, p);
        }
    });
    chain_sweeps(run, thorough);
}

pub fn replay(case: &Value, ctx: &mut Ctx) {
    match case["kind"].as_str() {
        Some("table") => {
            let mut c = Ctx::new();
            c.vcap = 100_000;
            table_indices(&mut c);
            for v in c.viol {
                if v.case == *case {
                    ctx.violate(v.case, v.msg);
                }
            }
        }
        Some("chainline") => {
            let g = |k: &str| case[k].as_u64().unwrap_or(0) as usize;
            chain_sweep(ctx, g("family") as u8, g("idx"), g("a"), g("b"), g("max"));
        }
        _ => {
            if case["what"].as_str() == Some("append until full") {
                if let Some(p) = pos_of_case(case) {
                    append_until_full(ctx, &p);
                }
                return;
            }
            replay_pos(case, ctx, &check_pos)
        }
    }
}

/// A small single-threaded replay for interpreters / sanitizers (Miri, ASan): the sweep of
/// `check_pos` over M2 (both kings only) restricted to a few king squares, REACH(1) from three
/// seeds, one high-mobility position, plus the table-index lookups of four squares.
pub fn mini() -> u8 {
    crate::engine::install_panic_hook();
    let mut ctx = Ctx::new();
    ctx.vcap = 100;
    let mut n = 0u64;
    // tables: a corner, an edge, a centre square
    for s in [0usize, 7, 27, 60] {
        for rook in [true, false] {
            let dirs: &[(i32, i32)] = if rook { &ORTH } else { &DIAG };
            let mut rays = Vec::new();
            for &(df, dr) in dirs {
                let (mut x, mut y) = (file_of(s) + df, rank_of(s) + dr);
                while on(x, y) {
                    rays.push(sq(x, y));
                    x += df;
                    y += dr;
                }
            }
            let lim = (1u64 << rays.len()).min(256);
            for x in 0..lim {
                let mut occ = owlchess::Bitboard::EMPTY;
                for (i, t) in rays.iter().enumerate() {
                    // spread the low bits of x over the ray squares
                    if x >> (i % 8) & 1 != 0 {
                        occ.set(oc(*t));
                    }
                }
                let _ = if rook { hk::rook(oc(s), occ) } else { hk::bishop(oc(s), occ) };
                n += 1;
            }
        }
    }
    let mut ps: Vec<Pos> = Vec::new();
    for (wk, bk) in [(4usize, 60usize), (0, 63), (27, 45)] {
        for stm in 0..2u8 {
            let mut p = Pos::empty();
            p.stm = stm;
            p.b[wk] = K;
            p.b[bk] = K | BLACK;
            ps.push(p);
        }
    }
    for s in crate::universe::seeds().iter().take(3) {
        ps.push(*s);
        for m in s.legal().into_iter().take(6) {
            ps.push(s.apply(m));
        }
    }
    ps.push(text::read_fen(MAXMOB_FENS[2]).unwrap());
    ps.push(text::read_fen("r3k2r/1P4P1/8/8/8/8/1p4p1/R3K2R w KQkq - 0 1").unwrap());
    ps.push(text::read_fen("4k3/8/8/3pP3/8/8/8/4K3 w - d6 0 1").unwrap());
    for p in &ps {
        if let Some(b) = board_of(p) {
            check_pos(&mut ctx, p, &b);
            append_until_full(&mut ctx, p);
            n += 1;
        }
    }
    for v in &ctx.viol {
        println!("MINI violation: {} :: {}", case_key(&v.case), v.msg);
    }
    println!("MINI-RESULT cases={} states={} transitions={} violations={}", n, ctx.states, ctx.transitions, ctx.nviol);
    if ctx.nviol > 0 {
        1
    } else {
        0
    }
}
