//! C17 - walking and printing a chain reproduce the game

use crate::bind::*;
use crate::engine::*;
use crate::model::text;
use crate::model::*;
use crate::universe as uni;
use owlchess::chain::{GameStatusPolicy, NumberPolicy};
use owlchess::moves::Style;
use owlchess::{DrawReason, MoveChain, Outcome, WinReason};
use serde_json::{json, Value};

pub const NAMES: &[&str] = &[
    "chains",
    "walker_words",
    "walker_steps",
    "steps_returning_none",
    "cursor_triples_covered",
    "printed_lists",
    "uci_list_round_trips",
    "max_chain_length",
    "chains_with_castling",
    "chains_with_en_passant",
    "chains_with_promotion",
    "black_starts",
];
const CHAINS: usize = 0;
const WORDS: usize = 1;
const STEPS: usize = 2;
const NONE: usize = 3;
const TRIPLES: usize = 4;
const PRINTED: usize = 5;
const LISTRT: usize = 6;
const MAXLEN: usize = 7;
const CASTLE: usize = 8;
const EP: usize = 9;
const PROMO: usize = 10;
const BLACKSTART: usize = 11;
const MAX_IDX: &[usize] = &[MAXLEN];

#[derive(Clone)]
struct Line {
    start: Pos,
    moves: Vec<Mv>,
}

impl Line {
    fn positions(&self) -> Vec<Pos> {
        let mut v = vec![self.start];
        for m in &self.moves {
            let n = v.last().unwrap().apply(*m);
            v.push(n);
        }
        v
    }
    fn case(&self, extra: Value) -> Value {
        json!({"kind": "line", "fen": text::fen(&self.start), "moves": self.moves.iter().map(|m| text::uci(*m)).collect::<Vec<_>>(), "extra": extra})
    }
}

fn build(line: &Line) -> Option<MoveChain> {
    let b = board_of(&line.start)?;
    let mut c = MoveChain::new(b);
    let mut p = line.start;
    for m in &line.moves {
        let mv = to_move(&p, *m).ok()?;
        c.push(mv).ok()?;
        p = p.apply(*m);
    }
    Some(c)
}

fn glyph_utf8(san: &str) -> String {
    san.chars()
        .filter(|c| *c != '=')
        .map(|c| match c {
            'N' => '\u{2658}',
            'B' => '\u{2657}',
            'R' => '\u{2656}',
            'Q' => '\u{2655}',
            'K' => '\u{2654}',
            x => x,
        })
        .collect()
}

fn move_text(p: &Pos, m: Mv, style: Style) -> String {
    match style {
        Style::Uci => text::uci(m),
        Style::San => text::san(p, &p.legal(), m),
        Style::SanUtf8 => glyph_utf8(&text::san(p, &p.legal(), m)),
    }
}

/// the model printer: standard movetext
fn model_print(line: &Line, positions: &[Pos], nums: Option<u64>, style: Style, status: Option<&str>) -> String {
    let mut s = String::new();
    if line.moves.is_empty() {
        return status.unwrap_or("").to_string();
    }
    let real_start = line.start.fmn as u64;
    for (i, m) in line.moves.iter().enumerate() {
        let p = &positions[i];
        if i > 0 {
            s.push(' ');
        }
        if let Some(n) = nums {
            let num = p.fmn as u64 - real_start + n;
            if p.stm == 0 {
                s.push_str(&format!("{}. ", num));
            } else if i == 0 {
                s.push_str(&format!("{}... ", num));
            }
        }
        s.push_str(&move_text(p, *m, style));
    }
    if let Some(st) = status {
        s.push(' ');
        s.push_str(st);
    }
    s
}

fn check_line(ctx: &mut Ctx, line: &Line, word_len: usize) {
    check_line_opt(ctx, line, word_len, false)
}

/// `light`: one stored outcome, move numbers from the board, status shown - all three styles
fn check_line_opt(ctx: &mut Ctx, line: &Line, word_len: usize, light: bool) {
    ctx.states += 1;
    ctx.add(CHAINS, 1);
    ctx.max(MAXLEN, line.moves.len() as u64);
    if line.moves.iter().any(|m| m.flag >= 3) {
        ctx.add(CASTLE, 1);
    }
    if line.moves.iter().any(|m| m.flag == 2) {
        ctx.add(EP, 1);
    }
    if line.moves.iter().any(|m| m.promo != 0) {
        ctx.add(PROMO, 1);
    }
    if line.start.stm == 1 {
        ctx.add(BLACKSTART, 1);
    }
    let Some(chain) = build(line) else {
        ctx.violate(line.case(json!("build")), "a legal line cannot be pushed onto a chain".into());
        return;
    };
    let positions = line.positions();
    let fulls: Vec<Option<Full>> = positions
        .iter()
        .map(|p| {
            let mut q = *p;
            q.hmc = q.hmc.min(65535);
            q.fmn = q.fmn.min(65535);
            board_of(&q).map(|b| full(&b))
        })
        .collect();
    let keys: Vec<MKey> = line.moves.iter().zip(&positions).map(|(m, p)| key_of_mv(p, *m)).collect();
    let before = crate::props::chains::obs(&chain);
    let n = line.moves.len();

    // walker: every word over {next, prev, start, end}, no merging
    let mut covered = std::collections::HashSet::new();
    fn rec(
        ctx: &mut Ctx,
        line: &Line,
        chain: &MoveChain,
        fulls: &[Option<Full>],
        keys: &[MKey],
        n: usize,
        word: &mut Vec<u8>,
        left: usize,
        covered: &mut std::collections::HashSet<(usize, u8)>,
    ) {
        // replay the word on a fresh walker (the walker cannot be cloned)
        ctx.add(WORDS, 1);
        let mut w = chain.walk();
        let mut pos = 0usize;
        for (step, &op) in word.iter().enumerate() {
            let last = step + 1 == word.len();
            if last {
                ctx.add(STEPS, 1);
                ctx.transitions += 1;
                ctx.traces += 1;
                covered.insert((pos, op));
            }
            match op {
                0 | 1 => {
                    let (got, want_idx) = if op == 0 {
                        let r = w.next().map(|(b, m)| (full(b), key_of_move(&m)));
                        let want = if pos == n { None } else { pos += 1; Some(pos - 1) };
                        (r, want)
                    } else {
                        let r = w.prev().map(|(b, m)| (full(b), key_of_move(&m)));
                        let want = if pos == 0 { None } else { pos -= 1; Some(pos) };
                        (r, want)
                    };
                    if last {
                        match (&got, want_idx) {
                            (None, None) => ctx.add(NONE, 1),
                            (Some((f, k)), Some(i)) => {
                                if Some(f) != fulls[i].as_ref() || *k != keys[i] {
                                    ctx.violate(line.case(json!({"word": word.clone()})), format!("walker step returned (position, move) that is not (position before move {}, move {})", i, i));
                                }
                            }
                            _ => ctx.violate(line.case(json!({"word": word.clone()})), format!("walker step returned {} where the game says {:?}", if got.is_some() { "a move" } else { "None" }, want_idx)),
                        }
                    }
                }
                2 => {
                    w.start();
                    pos = 0;
                }
                _ => {
                    w.end();
                    pos = n;
                }
            }
            if last && (w.pos() != pos || w.len() != n || w.is_empty() != (n == 0)) {
                ctx.violate(line.case(json!({"word": word.clone()})), format!("walker pos() = {} len() = {} but the cursor should be at {} of {}", w.pos(), w.len(), pos, n));
            }
        }
        if left == 0 {
            return;
        }
        for op in 0..4u8 {
            word.push(op);
            rec(ctx, line, chain, fulls, keys, n, word, left - 1, covered);
            word.pop();
        }
    }
    let mut word = Vec::new();
    rec(ctx, line, &chain, &fulls, &keys, n, &mut word, word_len, &mut covered);
    ctx.add(TRIPLES, covered.len() as u64);
    if n > word_len {
        // sweeps over the whole chain, every step checked: forward to the end and one beyond, back
        // to the start and one beyond, the same after the jumps, and a zigzag (two on, one back)
        let mut sweeps: Vec<Vec<u8>> = Vec::new();
        let mut a: Vec<u8> = vec![0; n + 1];
        a.extend(vec![1u8; n + 1]);
        sweeps.push(a);
        let mut b: Vec<u8> = vec![3];
        b.extend(vec![1u8; n + 1]);
        b.push(2);
        b.extend(vec![0u8; n + 1]);
        sweeps.push(b);
        let mut z: Vec<u8> = Vec::new();
        for _ in 0..n {
            z.extend([0u8, 0, 1]);
        }
        sweeps.push(z);
        for (si, word) in sweeps.iter().enumerate() {
            ctx.add(WORDS, 1);
            let mut w = chain.walk();
            let mut pos = 0usize;
            for (step, &op) in word.iter().enumerate() {
                ctx.add(STEPS, 1);
                ctx.transitions += 1;
                let mut bad: Option<String> = None;
                match op {
                    0 | 1 => {
                        let (got, want_idx) = if op == 0 {
                            let r = w.next().map(|(b, m)| (full(b), key_of_move(&m)));
                            let want = if pos == n { None } else { pos += 1; Some(pos - 1) };
                            (r, want)
                        } else {
                            let r = w.prev().map(|(b, m)| (full(b), key_of_move(&m)));
                            let want = if pos == 0 { None } else { pos -= 1; Some(pos) };
                            (r, want)
                        };
                        match (&got, want_idx) {
                            (None, None) => ctx.add(NONE, 1),
                            (Some((f, k)), Some(i)) => {
                                if Some(f) != fulls[i].as_ref() || *k != keys[i] {
                                    bad = Some(format!("sweep {} step {}: walker returned (position, move) that is not (position before move {}, move {})", si, step, i, i));
                                }
                            }
                            _ => bad = Some(format!("sweep {} step {}: walker returned {} where the game says {:?}", si, step, if got.is_some() { "a move" } else { "None" }, want_idx)),
                        }
                    }
                    2 => {
                        w.start();
                        pos = 0;
                    }
                    _ => {
                        w.end();
                        pos = n;
                    }
                }
                if bad.is_none() && (w.pos() != pos || w.len() != n) {
                    bad = Some(format!("sweep {} step {}: walker pos() = {} len() = {} but the cursor should be at {} of {}", si, step, w.pos(), w.len(), pos, n));
                }
                if let Some(msg) = bad {
                    ctx.violate(line.case(json!({"sweep": si, "step": step})), msg);
                    break;
                }
            }
        }
    }
    let after = crate::props::chains::obs(&chain);
    if after != before {
        ctx.violate(line.case(json!("untouched")), "walking changed the chain".into());
    }

    // the UCI list text rebuilds an equal chain
    ctx.add(LISTRT, 1);
    let list = chain.uci().to_string();
    let want_list = line.moves.iter().map(|m| text::uci(*m)).collect::<Vec<_>>().join(" ");
    if list != want_list {
        ctx.violate(line.case(json!("uci list")), format!("uci() = `{}` but the game is `{}`", list, want_list));
    }
    match board_of(&line.start).map(|b| MoveChain::from_uci_list(b, &list)) {
        Some(Ok(c2)) => {
            if c2 != chain || crate::props::chains::obs(&c2) != before {
                ctx.violate(line.case(json!("uci list")), "the chain rebuilt from its UCI list differs".into());
            }
        }
        _ => ctx.violate(line.case(json!("uci list")), "the chain's own UCI list is refused".into()),
    }

    // styled lists: all number policies x styles x status policies x stored outcomes
    let outcomes: [(Option<Outcome>, &str); 4] = [
        (None, "*"),
        (Some(Outcome::Win { side: owlchess::Color::White, reason: WinReason::Resign }), "1-0"),
        (Some(Outcome::Win { side: owlchess::Color::Black, reason: WinReason::Checkmate }), "0-1"),
        (Some(Outcome::Draw(DrawReason::Agreement)), "1/2-1/2"),
    ];
    let mut c = chain.clone();
    for (out, token) in outcomes.into_iter().take(if light { 1 } else { 4 }) {
        c.reset_outcome(out);
        for (np, nums) in [
            (NumberPolicy::Omit, None),
            (NumberPolicy::FromBoard, Some(line.start.fmn as u64)),
            (NumberPolicy::Custom(0), Some(0)),
            (NumberPolicy::Custom(1), Some(1)),
            (NumberPolicy::Custom(42), Some(42)),
        ]
        .into_iter()
        .skip(if light { 1 } else { 0 })
        .take(if light { 1 } else { 5 })
        {
            for style in [Style::San, Style::SanUtf8, Style::Uci] {
                for (sp, st) in [(GameStatusPolicy::Show, Some(token)), (GameStatusPolicy::Hide, None)].into_iter().take(if light { 1 } else { 2 }) {
                    ctx.add(PRINTED, 1);
                    ctx.transitions += 1;
                    let got = match guarded(|| c.styled(np, style, sp).to_string()) {
                        Ok(g) => g,
                        Err(m) => {
                            ctx.violate(line.case(json!({"print": format!("{:?} {:?} {:?}", np, style, sp)})), format!("styled() panicked: {}", m));
                            continue;
                        }
                    };
                    let want = model_print(line, &positions, nums, style, st);
                    if got != want {
                        ctx.violate(
                            line.case(json!({"print": format!("{:?} {:?} {:?} outcome {:?}", np, style, sp, out)})),
                            format!("styled list is `{}` but the game prints as `{}`", got, want),
                        );
                    }
                }
            }
        }
    }
    if ctx.samples.is_empty() && n >= 3 {
        ctx.samples.push(json!({"start": text::fen(&line.start), "moves": want_list, "printed": chain.styled(NumberPolicy::FromBoard, Style::San, GameStatusPolicy::Show).to_string()}));
    }
}

/// all legal lines of length <= len from `start` whose moves satisfy `pred`
fn lines(start: &Pos, len: usize, pred: &dyn Fn(&Pos, Mv) -> bool, out: &mut Vec<Line>) {
    fn rec(p: &Pos, left: usize, cur: &mut Vec<Mv>, start: &Pos, pred: &dyn Fn(&Pos, Mv) -> bool, out: &mut Vec<Line>) {
        out.push(Line { start: *start, moves: cur.clone() });
        if left == 0 {
            return;
        }
        for m in p.legal() {
            if !pred(p, m) {
                continue;
            }
            cur.push(m);
            rec(&p.apply(m), left - 1, cur, start, pred, out);
            cur.pop();
        }
    }
    rec(start, len, &mut Vec::new(), start, pred, out);
}

fn all_lines(thorough: bool) -> Vec<Line> {
    let mut v = Vec::new();
    let l = if thorough { 5 } else { 4 };
    // G2-like: knights and a pawn from the initial position, both move numbers
    let init = text::read_fen("rnbqkbnr/pppppppp/8/8/8/8/PPPPPPPP/RNBQKBNR w KQkq - 0 1").unwrap();
    let g2: Vec<(u8, u8)> = ["g1f3", "f3g1", "b1c3", "c3b1", "g8f6", "f6g8", "b8c6", "c6b8", "e2e4", "e7e5"].iter().map(|s| text::parse_uci(s).map(|(f, t, _)| (f, t)).unwrap()).collect();
    lines(&init, l, &|_, m| g2.contains(&(m.from, m.to)), &mut v);
    // G3: K+R v K, all legal moves, Black to move first as well
    for fen in ["4k3/8/8/8/8/8/8/R3K3 w Q - 0 1", "4k3/8/8/8/8/8/8/R3K3 b Q - 5 12"] {
        let p = text::read_fen(fen).unwrap();
        lines(&p, l - 1, &|_, _| true, &mut v);
    }
    // special-move lines: castling both sides, en passant, promotions, capture-promotions, from
    // the castling/promotion-rich and en-passant-rich seeds and their mirrors, move numbers 1 and 12
    let special = |p: &Pos, m: Mv| m.flag != 0 || m.promo != 0 || p.is_capture(m);
    for fen in ["r3k2r/1P4P1/8/8/8/8/1p4p1/R3K2R w KQkq - 0 1", "4k3/1p1p1p1p/8/P1P1P1P1/p1p1p1p1/8/1P1P1P1P/4K3 w - - 0 1", "r3k2r/pppp1ppp/8/4p3/4P3/8/PPPP1PPP/R3K2R w KQkq - 0 1"] {
        let p = text::read_fen(fen).unwrap();
        for q in [p, uni::mirror_colours(&p)] {
            for num in [1u32, 12] {
                let mut s = q;
                s.fmn = num;
                if fen.starts_with("r3k2r/pppp1ppp") {
                    // castling + pawn moves only, to keep it small
                    lines(&s, 3, &|_, m| m.flag != 0, &mut v);
                } else {
                    lines(&s, 3, &special, &mut v);
                }
            }
        }
    }
    v
}

/// one-ply capture lines from the BATTERY family (own king on the 8 spread squares): the
/// printed notation of captures that resolve a check or happen on a king line
fn battery_lines() -> Vec<Line> {
    let mut v = Vec::new();
    for &k in &uni::SPREAD8 {
        for stm in 0..2 {
            uni::battery(k * 2 + stm, 2, false, &mut |p| {
                for m in p.legal() {
                    if p.is_capture(m) && kind(p.b[m.from as usize]) != K {
                        v.push(Line { start: *p, moves: vec![m] });
                        // a second own man of the same kind that can make the same capture: the
                        // printed move then needs (exactly) the standard disambiguation
                        let c = p.b[m.from as usize];
                        for s2 in 0..64 {
                            if p.b[s2] != EMPTY {
                                continue;
                            }
                            let mut q = *p;
                            q.b[s2] = c;
                            if !is_valid_normal(&q) {
                                continue;
                            }
                            let l = q.legal();
                            if l.contains(&m) && l.iter().any(|o| o.to == m.to && o.from as usize == s2) {
                                v.push(Line { start: q, moves: vec![m] });
                            }
                        }
                    }
                }
            });
        }
    }
    v
}

pub fn run(run: &mut Run) {
    run.counter_names = NAMES;
    run.max_idx = MAX_IDX;
    run.assumptions = vec![
        "reference model: positions and moves of the line; a plain cursor for the walker; a model printer for standard movetext (numbers before White's moves and `N...` before a Black first move, numbers continue from the start position's move number or the custom one, status token from the stored outcome)".into(),
        "the walker's physical cursor is hidden, so walker words are enumerated without merging; coverage of (logical cursor, operation) pairs is reported".into(),
    ];
    let thorough = run.thorough();
    let ls = all_lines(thorough);
    let wl = if thorough { 8 } else { 6 };
    run.par_shards(&format!("LINES ({} chains) x all walker words of length <= {} over {{next, prev, start, end}} x all print policies", ls.len(), wl), ls.len(), |ctx, i| {
        check_line(ctx, &ls[i], wl);
    });
    // LONG: deterministic deep lines (hundreds of moves): sweeps of the walker over the whole chain,
    // the UCI list round trip and every print policy with three-digit move numbers
    let ll = crate::props::common::long_lines(thorough);
    run.par_shards(&format!("LONG: {} deterministic lines of up to {} plies x walker sweeps (every step checked) + words <= 2 x all print policies (single deep executions)", ll.len(), uni::long_max(thorough)), ll.len(), |ctx, i| {
        let line = Line { start: ll[i].0, moves: ll[i].1.clone() };
        check_line(ctx, &line, 2);
    });
    // SANMANY one-ply lines: several like pieces reach one square; the printed move needs exactly
    // the standard file / rank / both disambiguation (light printing: three styles)
    run.par_shards("SANMANY one-ply lines (2..8 like pieces to one square, every subset) x walker words <= 1 x 3 styles", uni::SANMANY_SHARDS, |ctx, sh| {
        uni::sanmany(sh, &mut |p| {
            let legal = p.legal();
            for &m in legal.iter().filter(|m| m.to as usize == sh && kind(p.b[m.from as usize]) != K) {
                check_line_opt(ctx, &Line { start: *p, moves: vec![m] }, 1, true);
            }
        });
    });
    let bl = battery_lines();
    let chunks: Vec<&[Line]> = bl.chunks(256).collect();
    run.par_shards(&format!("BATTERY capture lines ({} one-ply chains) x walker words <= 2 x all print policies", bl.len()), chunks.len(), |ctx, i| {
        for l in chunks[i] {
            check_line(ctx, l, 2);
        }
    });
}

pub fn replay(case: &Value, ctx: &mut Ctx) {
    let Some(start) = case["fen"].as_str().and_then(text::read_fen) else { return };
    let mut line = Line { start, moves: vec![] };
    let mut p = start;
    for u in case["moves"].as_array().cloned().unwrap_or_default() {
        let Some(u) = u.as_str() else { return };
        let Some(m) = p.legal().into_iter().find(|m| text::uci(*m) == u) else { return };
        line.moves.push(m);
        p = p.apply(m);
    }
    let wl = if line.moves.len() > 20 { 2 } else { 6 };
    check_line(ctx, &line, wl);
}
