//! C05 - incremental Zobrist hash and occupancy sets equal a from-scratch recomputation

use crate::bind::*;
use crate::engine::*;
use crate::model::text;
use crate::model::*;
use crate::props::common::*;
use crate::universe as uni;
use owlchess::moves::{make_move_unchecked, unmake_move_unchecked};
use owlchess::{Board, CastlingRights, Cell, Color, Coord, Move, RawBoard};
use serde_json::{json, Value};
use std::collections::HashMap;

pub const NAMES: &[&str] = &[
    "coherence_checks",
    "after_make",
    "after_unmake",
    "counter_variants",
    "transposition_hits",
    "distinct_identities",
    "key_pairs_checked",
    "model_impl_validity_disagreements",
    "long_lines",
    "long_line_plies",
];
const COH: usize = 0;
const AMAKE: usize = 1;
const AUNMAKE: usize = 2;
const CVAR: usize = 3;
const TRANS: usize = 4;
const IDENTS: usize = 5;
const KEYPAIRS: usize = 6;
const DISAGREE: usize = 7;
const LONGS: usize = 8;
const LONGPLIES: usize = 9;

fn coh(ctx: &mut Ctx, case: impl FnOnce() -> Value, b: &Board, when: &str) {
    ctx.add(COH, 1);
    if let Err(e) = coherent(b) {
        ctx.violate(case(), format!("{}: {}", when, e));
    }
}

pub fn check_pos(ctx: &mut Ctx, p: &Pos, b: &Board) {
    ctx.states += 1;
    coh(ctx, || case_pos(p, "state"), b, "freshly validated board");
    let mut s = b.clone();
    for m in p.pseudo_vec() {
        let Ok(mv) = to_move(p, m) else { continue };
        if !mv.is_semilegal(b) {
            continue;
        }
        ctx.transitions += 2;
        ctx.traces += 1;
        let legal = p.is_legal(m);
        let u = unsafe { make_move_unchecked(&mut s, mv) };
        if legal {
            ctx.add(AMAKE, 1);
            coh(ctx, || case_pos_mv(p, "after make", m), &s, "after make");
            // same position, same hash: the successor reached incrementally hashes like the
            // model successor built from scratch
            let succ = p.apply(m);
            let mut q = succ;
            q.hmc = q.hmc.min(65535);
            q.fmn = q.fmn.min(65535);
            if let Some(t) = board_of(&q) {
                if t.zobrist_hash() != s.zobrist_hash() {
                    ctx.violate(case_pos_mv(p, "successor hash", m), format!("hash after make {:#x} != hash of the same position validated from scratch {:#x}", s.zobrist_hash(), t.zobrist_hash()));
                }
            }
        }
        unsafe { unmake_move_unchecked(&mut s, mv, u) };
        ctx.add(AUNMAKE, 1);
        coh(ctx, || case_pos_mv(p, "after unmake", m), &s, "after unmake");
    }
    unsafe {
        let u = make_move_unchecked(&mut s, Move::NULL);
        unmake_move_unchecked(&mut s, Move::NULL, u);
    }
    coh(ctx, || case_pos(p, "after null move + undo"), &s, "after null move + undo");

    // the hash ignores both counters
    for (dh, dn) in [(1u32, 0u32), (0, 1), (37, 5)] {
        let mut q = *p;
        q.hmc = (p.hmc + dh).min(65535);
        q.fmn = (p.fmn + dn).min(65535);
        if let Some(t) = board_of(&q) {
            ctx.add(CVAR, 1);
            if t.zobrist_hash() != b.zobrist_hash() || t.raw().zobrist_hash() != b.raw().zobrist_hash() {
                ctx.violate(case_pos(p, "counters ignored"), format!("hash changes with the counters: clock {} number {} vs clock {} number {}", p.hmc, p.fmn, q.hmc, q.fmn));
            }
        }
    }
    if ctx.samples.is_empty() {
        ctx.samples.push(json!({"fen": text::fen(p), "hash": format!("{:#x}", b.zobrist_hash())}));
    }
}

/// exhaustive single-feature sensitivity on the key tables, through RawBoard::zobrist_hash
fn key_tables(ctx: &mut Ctx) {
    let bases: Vec<RawBoard> = [
        "8/8/8/8/8/8/8/8 w - - 0 1",
        "rnbqkbnr/pppppppp/8/8/8/8/PPPPPPPP/RNBQKBNR w KQkq - 0 1",
        "r3k2r/p1ppqpb1/bn2pnp1/3PN3/1p2P3/2N2Q1p/PPPBBPPP/R3K2R b KQkq - 3 9",
        "8/2p5/3p4/KP5r/1R3p1k/8/4P1P1/8 b - - 10 40",
    ]
    .iter()
    .map(|f| RawBoard::from_fen(f).expect("base fen"))
    .collect();
    for (bi, base) in bases.iter().enumerate() {
        // one man on one square
        for sqi in 0..64usize {
            let c = Coord::from_index(sqi);
            let mut hs = Vec::new();
            for cell in Cell::iter() {
                let mut r = *base;
                r.put(c, cell);
                hs.push(r.zobrist_hash());
            }
            for i in 0..13 {
                for j in (i + 1)..13 {
                    ctx.states += 1;
                    ctx.add(KEYPAIRS, 1);
                    if hs[i] == hs[j] {
                        ctx.violate(
                            json!({"kind": "keys", "feature": "cell", "base": bi, "square": sqi, "a": i, "b": j}),
                            format!("boards differing only in the content of {} ({} vs {}) hash equally", c, i, j),
                        );
                    }
                }
            }
        }
        // side to move
        {
            let mut r = *base;
            r.side = Color::White;
            let h1 = r.zobrist_hash();
            r.side = Color::Black;
            let h2 = r.zobrist_hash();
            ctx.states += 1;
            ctx.add(KEYPAIRS, 1);
            if h1 == h2 {
                ctx.violate(json!({"kind": "keys", "feature": "side", "base": bi}), "boards differing only in the side to move hash equally".into());
            }
        }
        // castling rights: every pair of values that differ in exactly one right
        let hs: Vec<u64> = (0..16)
            .map(|i| {
                let mut r = *base;
                r.castling = CastlingRights::from_index(i);
                r.zobrist_hash()
            })
            .collect();
        for i in 0..16usize {
            for j in (i + 1)..16usize {
                if (i ^ j).count_ones() != 1 {
                    continue;
                }
                ctx.states += 1;
                ctx.add(KEYPAIRS, 1);
                if hs[i] == hs[j] {
                    ctx.violate(json!({"kind": "keys", "feature": "castling", "base": bi, "a": i, "b": j}), format!("castling rights {} and {} (one right apart) hash equally", i, j));
                }
            }
        }
        // en-passant mark: for each side, no mark and each file on the rank appropriate to that
        // side (White to move: 5th rank = owlchess rank index 3; Black to move: 4th = index 4)
        for (side, rank_idx) in [(Color::White, 3usize), (Color::Black, 4usize)] {
            let mut hs: Vec<u64> = Vec::new();
            let mut r = *base;
            r.side = side;
            r.ep_source = None;
            hs.push(r.zobrist_hash());
            for f in 0..8 {
                r.ep_source = Some(Coord::from_index(rank_idx * 8 + f));
                hs.push(r.zobrist_hash());
            }
            for i in 0..hs.len() {
                for j in (i + 1)..hs.len() {
                    ctx.states += 1;
                    ctx.add(KEYPAIRS, 1);
                    if hs[i] == hs[j] {
                        ctx.violate(
                            json!({"kind": "keys", "feature": "ep", "base": bi, "side": side as u8, "a": i, "b": j}),
                            format!("en-passant marks #{} and #{} (0 = none, else file) hash equally for side {:?}", i, j, side),
                        );
                    }
                }
            }
        }
    }
    ctx.transitions += 1;
    ctx.samples.push(json!({"key_tables": "every square x every pair of the 13 cell values, side, every pair of rights values one right apart, every pair of {no mark} + 8 files per side, on 4 base boards"}));
}

fn replay_keys(case: &Value, ctx: &mut Ctx) {
    let mut c = Ctx::new();
    key_tables(&mut c);
    for v in c.viol {
        if v.case == *case {
            ctx.violate(v.case, v.msg);
        }
    }
    if ctx.viol.is_empty() && c.nviol > 0 {
        // more violations than recorded: report the first one
        ctx.violate(case.clone(), "key table pair collision (see full run)".into());
    }
}

/// same position (squares, side, rights, mark) => same hash, however reached
fn transpositions(run: &mut Run, depth: u32) {
    let cap = if run.thorough() { 12_000_000 } else { 3_000_000 };
    // quick: initial position, Kiwipete, CPW position 3 and the mirrored castling-rich seed
    let all = uni::seeds();
    let seeds: Vec<Pos> = if run.thorough() { all.clone() } else { vec![all[0], all[2], all[4], all[15]] };
    let nseeds = seeds.len();
    let (states, capped) = reach_states_from(&seeds, depth, cap);
    if capped {
        run.exhaustive = false;
        run.caps.push(format!("TRANSPOSITIONS: REACH({}) state cap {} reached", depth, cap));
    }
    use rayon::prelude::*;
    let hashes: Vec<Option<u64>> = states.par_iter().map(|(p, _)| board_of(p).map(|b| b.zobrist_hash())).collect();
    run.seq(&format!("TRANSPOSITIONS in REACH({}) from {} seeds", depth, nseeds), |ctx| {
        let mut seen: HashMap<([u8; 64], u8, [bool; 4], Option<u8>), (u64, Pos)> = HashMap::new();
        for ((p, _), h) in states.iter().zip(&hashes) {
            let Some(h) = *h else { continue };
            ctx.states += 1;
            match seen.get(&p.ident()) {
                Some((h0, first)) => {
                    ctx.add(TRANS, 1);
                    ctx.transitions += 1;
                    if *h0 != h {
                        ctx.violate(
                            json!({"kind": "transposition", "fen_a": text::fen(first), "fen_b": text::fen(p)}),
                            format!("same position, different hash: {:#x} vs {:#x}", h0, h),
                        );
                    }
                }
                None => {
                    ctx.add(IDENTS, 1);
                    seen.insert(p.ident(), (h, *p));
                }
            }
        }
    });
}

fn replay_transposition(case: &Value, ctx: &mut Ctx) {
    let (Some(a), Some(b)) = (case["fen_a"].as_str().and_then(text::read_fen), case["fen_b"].as_str().and_then(text::read_fen)) else { return };
    let (Some(ba), Some(bb)) = (board_of(&a), board_of(&b)) else { return };
    if a.ident() == b.ident() && ba.zobrist_hash() != bb.zobrist_hash() {
        ctx.violate(case.clone(), "same position, different hash".into());
    }
}

pub fn run(run: &mut Run) {
    run.counter_names = NAMES;
    run.assumptions = vec![
        "recomputation oracle: RawBoard::zobrist_hash() and sets rebuilt from the squares (the from-scratch hash itself is checked for single-feature sensitivity on the key tables)".into(),
        "hook H1 for the combined occupancy set".into(),
    ];
    let thorough = run.thorough();
    run.seq("KEY TABLES (single-feature sensitivity)", |ctx| key_tables(ctx));
    let mut sel = Sel::standard(thorough);
    sel.counters = true;
    sel.clocks = true;
    sel.ray = None;
    run_universes(run, &sel, DISAGREE, &check_pos);
    transpositions(run, 4);
    // long histories: the incrementally maintained hash and sets after hundreds of plies on one
    // board, against a board of the same position built from scratch, and again while unwinding
    let ll = long_lines(thorough);
    run.par_shards(&format!("LONG: {} deterministic lines of up to {} plies, incremental state vs from-scratch state at every ply (single deep executions)", ll.len(), uni::long_max(thorough)), ll.len(), |ctx, i| {
        let n = deep_line(ctx, &ll[i].0, &ll[i].1, "deep");
        ctx.add(LONGS, 1);
        ctx.add(LONGPLIES, n as u64);
    });
    let _ = uni::M3_SHARDS;
}

pub fn replay(case: &Value, ctx: &mut Ctx) {
    match case["kind"].as_str() {
        Some("keys") => replay_keys(case, ctx),
        Some("deep") => replay_deep(case, ctx, "deep"),
        Some("transposition") => replay_transposition(case, ctx),
        _ => replay_pos(case, ctx, &check_pos),
    }
}
