//! C01 - legal move generation is exactly the rules of chess

use crate::bind::*;
use crate::engine::*;
use crate::model::*;
use crate::props::common::*;
use owlchess::movegen::legal;
use owlchess::moves::make::{Make, TryUnchecked};
use owlchess::moves::{make_move_unchecked, unmake_move_unchecked};
use owlchess::Board;
use serde_json::Value;

pub const NAMES: &[&str] = &[
    "in_check",
    "double_check",
    "has_pinned_man",
    "ep_pseudo_legal",
    "ep_illegal",
    "castling_legal",
    "castling_right_but_refused",
    "promotion_moves",
    "no_legal_move",
    "max_legal_moves",
    "pseudo_illegal_moves",
    "model_impl_validity_disagreements",
];
pub const IN_CHECK: usize = 0;
pub const DOUBLE_CHECK: usize = 1;
pub const HAS_PIN: usize = 2;
pub const EP_PSEUDO: usize = 3;
pub const EP_ILLEGAL: usize = 4;
pub const CASTLE_LEGAL: usize = 5;
pub const CASTLE_REFUSED: usize = 6;
pub const PROMO: usize = 7;
pub const NO_LEGAL: usize = 8;
pub const MAX_LEGAL: usize = 9;
pub const PSEUDO_ILLEGAL: usize = 10;
pub const DISAGREE: usize = 11;
pub const MAX_IDX: &[usize] = &[MAX_LEGAL];

fn keys_of(list: &[owlchess::Move]) -> Vec<MKey> {
    let mut v: Vec<MKey> = list.iter().map(key_of_move).collect();
    v.sort();
    v
}

pub fn check_pos(ctx: &mut Ctx, p: &Pos, b: &Board) {
    ctx.states += 1;
    let pseudo = p.pseudo_vec();
    let us = p.stm;
    let legal_flags: Vec<bool> = pseudo.iter().map(|&m| !p.apply(m).in_check(us)).collect();
    let mlegal: Vec<Mv> = pseudo
        .iter()
        .zip(&legal_flags)
        .filter(|(_, &l)| l)
        .map(|(m, _)| *m)
        .collect();

    // anti-vacuity counters
    let checkers = p.king_sq(us).map(|k| p.attackers(k, 1 - us)).unwrap_or(0);
    let in_check = checkers != 0;
    if in_check {
        ctx.add(IN_CHECK, 1);
        if checkers.count_ones() > 1 {
            ctx.add(DOUBLE_CHECK, 1);
        }
    }
    let mut pin = false;
    for (m, &l) in pseudo.iter().zip(&legal_flags) {
        if !l {
            ctx.add(PSEUDO_ILLEGAL, 1);
            if !in_check && kind(p.b[m.from as usize]) != K && m.flag != 2 {
                pin = true;
            }
        }
        if m.flag == 2 {
            ctx.add(EP_PSEUDO, 1);
            if !l {
                ctx.add(EP_ILLEGAL, 1);
            }
        }
        if m.flag >= 3 && l {
            ctx.add(CASTLE_LEGAL, 1);
        }
        if m.promo != 0 {
            ctx.add(PROMO, 1);
        }
    }
    if pin {
        ctx.add(HAS_PIN, 1);
    }
    if (p.cr[(us * 2) as usize] || p.cr[(us * 2 + 1) as usize])
        && !pseudo.iter().any(|m| m.flag >= 3)
    {
        ctx.add(CASTLE_REFUSED, 1);
    }
    if mlegal.is_empty() {
        ctx.add(NO_LEGAL, 1);
    }
    ctx.max(MAX_LEGAL, mlegal.len() as u64);

    // 1. the five legal generators against the model's sets (as multisets)
    let mut want_all: Vec<MKey> = mlegal.iter().map(|&m| key_of_mv(p, m)).collect();
    want_all.sort();
    let sub = |pred: &dyn Fn(Mv) -> bool| -> Vec<MKey> {
        let mut v: Vec<MKey> = mlegal
            .iter()
            .filter(|&&m| pred(m))
            .map(|&m| key_of_mv(p, m))
            .collect();
        v.sort();
        v
    };
    let is_cap = |m: Mv| p.is_capture(m);
    let want_capture = sub(&|m| is_cap(m));
    let want_simple = sub(&|m| !is_cap(m));
    let want_simple_np = sub(&|m| !is_cap(m) && m.promo == 0);
    let want_simple_p = sub(&|m| !is_cap(m) && m.promo != 0);
    for (name, got, want) in [
        ("legal::gen_all", keys_of(&legal::gen_all(b)), &want_all),
        ("legal::gen_capture", keys_of(&legal::gen_capture(b)), &want_capture),
        ("legal::gen_simple", keys_of(&legal::gen_simple(b)), &want_simple),
        (
            "legal::gen_simple_no_promote",
            keys_of(&legal::gen_simple_no_promote(b)),
            &want_simple_np,
        ),
        (
            "legal::gen_simple_promote",
            keys_of(&legal::gen_simple_promote(b)),
            &want_simple_p,
        ),
    ] {
        if &got != want {
            ctx.violate(
                case_pos(p, name),
                format!(
                    "{} differs from the rules: extra {:?}, missing {:?}",
                    name,
                    diff_keys(&got, want),
                    diff_keys(want, &got)
                ),
            );
        }
    }

    // 2. every other way of deciding legality of a single move agrees
    let mut scratch = b.clone();
    for (&m, &l) in pseudo.iter().zip(&legal_flags) {
        ctx.transitions += 1;
        ctx.traces += 1;
        let mv = match to_move(p, m) {
            Ok(mv) => mv,
            Err(e) => {
                ctx.violate(case_pos_mv(p, "Move::new", m), e);
                continue;
            }
        };
        let v = mv.validate(b).is_ok();
        if v != l {
            ctx.violate(
                case_pos_mv(p, "Move::validate", m),
                format!("Move::validate says legal={} but the rules say {}", v, l),
            );
        }
        if !mv.is_semilegal(b) {
            // C06's business; the unchecked interfaces may not be called with this move
            continue;
        }
        let a = unsafe { mv.is_legal_unchecked(b) };
        let t = unsafe { TryUnchecked::new(mv) }.make(b).is_ok();
        let u = unsafe {
            let undo = make_move_unchecked(&mut scratch, mv);
            let ok = !scratch.is_opponent_king_attacked();
            unmake_move_unchecked(&mut scratch, mv, undo);
            ok
        };
        let t2 = {
            let r = unsafe { TryUnchecked::new(mv) }.make_raw(&mut scratch);
            match r {
                Ok((mm, undo)) => {
                    unsafe { unmake_move_unchecked(&mut scratch, mm, undo) };
                    true
                }
                Err(_) => false,
            }
        };
        if a != l || t != l || u != l || t2 != l {
            ctx.violate(
                case_pos_mv(p, "legality agreement", m),
                format!(
                    "rules say legal={}; is_legal_unchecked={} TryUnchecked::make={} TryUnchecked::make_raw={} make_move_unchecked+!is_opponent_king_attacked={}",
                    l, a, t, t2, u
                ),
            );
        }
    }
    if ctx.samples.is_empty() {
        ctx.samples.push(serde_json::json!({
            "fen": crate::model::text::fen(p),
            "legal_moves": mlegal.iter().map(|&m| crate::model::text::uci(m)).collect::<Vec<_>>(),
            "pseudo_legal_but_illegal": pseudo.iter().zip(&legal_flags).filter(|(_, &l)| !l)
                .map(|(m, _)| crate::model::text::uci(*m)).collect::<Vec<_>>(),
        }));
    }
}

pub fn run(run: &mut Run) {
    run.counter_names = NAMES;
    run.max_idx = MAX_IDX;
    run.assumptions = vec![
        "reference model refchess (validated against published perft tables at setup)".into(),
        "binding layer bind.rs (public API only)".into(),
        "positions outside the listed universes are covered only by the small-scope argument of DESIGN.md section 4".into(),
    ];
    let thorough = run.thorough();
    let mut sel = Sel::standard(thorough);
    // quick: the corner slice of M4 (the full M4 is in thorough)
    sel.m4_corner = if thorough { None } else { Some(7) };
    run_universes(run, &sel, DISAGREE, &check_pos);
}

pub fn replay(case: &Value, ctx: &mut Ctx) {
    replay_pos(case, ctx, &check_pos);
}
