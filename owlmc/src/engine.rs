//! Exploration engine: per-thread contexts, parallel shard driver, violation / evidence / replay
//! plumbing, crash-case slots.

use crate::model::text;
use crate::model::*;
use rayon::prelude::*;
use serde_json::{json, Value};
use std::cell::{Cell, RefCell};
use std::panic::{catch_unwind, AssertUnwindSafe};
use std::sync::atomic::{AtomicBool, AtomicU64, Ordering};
use std::time::Instant;

pub const NCNT: usize = 48;
pub const MAX_VIOL_PER_CTX: usize = 4;
pub const MAX_VIOL_TOTAL: usize = 20;

#[derive(Clone, Debug)]
pub struct Violation {
    pub case: Value,
    pub msg: String,
}

#[derive(Clone)]
pub struct Ctx {
    pub cnt: [u64; NCNT],
    pub states: u64,
    pub transitions: u64,
    pub traces: u64,
    pub viol: Vec<Violation>,
    pub nviol: u64,
    pub samples: Vec<Value>,
    pub vcap: usize,
}

impl Default for Ctx {
    fn default() -> Self {
        Ctx::new()
    }
}

impl Ctx {
    pub fn new() -> Ctx {
        Ctx {
            cnt: [0; NCNT],
            states: 0,
            transitions: 0,
            traces: 0,
            viol: Vec::new(),
            nviol: 0,
            samples: Vec::new(),
            vcap: MAX_VIOL_PER_CTX,
        }
    }
    #[inline]
    pub fn add(&mut self, idx: usize, n: u64) {
        self.cnt[idx] += n;
    }
    #[inline]
    pub fn max(&mut self, idx: usize, v: u64) {
        if v > self.cnt[idx] {
            self.cnt[idx] = v;
        }
    }
    pub fn violate(&mut self, case: Value, msg: String) {
        self.nviol += 1;
        if self.viol.len() < self.vcap {
            self.viol.push(Violation { case, msg });
        }
    }
    pub fn merge(&mut self, o: Ctx, max_idx: &[usize]) {
        for i in 0..NCNT {
            if max_idx.contains(&i) {
                self.cnt[i] = self.cnt[i].max(o.cnt[i]);
            } else {
                self.cnt[i] += o.cnt[i];
            }
        }
        self.states += o.states;
        self.transitions += o.transitions;
        self.traces += o.traces;
        self.nviol += o.nviol;
        for v in o.viol {
            if self.viol.len() < MAX_VIOL_TOTAL {
                self.viol.push(v);
            }
        }
        for s in o.samples {
            if self.samples.len() < 6 {
                self.samples.push(s);
            }
        }
    }
}

// ---------------------------------------------------------------------------------------------
// crash-case slots

pub const SLOT_SIZE: usize = 192;
pub const NSLOTS: usize = 64;

struct Slots(std::cell::UnsafeCell<[[u8; SLOT_SIZE]; NSLOTS]>);
unsafe impl Sync for Slots {}
static SLOTS: Slots = Slots(std::cell::UnsafeCell::new([[0; SLOT_SIZE]; NSLOTS]));
static CRASH_FD: std::sync::atomic::AtomicI32 = std::sync::atomic::AtomicI32::new(-1);

thread_local! {
    static SLOT_IDX: Cell<usize> = const { Cell::new(NSLOTS - 1) };
    static LAST_PANIC: RefCell<String> = const { RefCell::new(String::new()) };
}

fn my_slot() -> usize {
    SLOT_IDX.with(|c| c.get())
}

pub fn bind_slot() {
    let idx = rayon::current_thread_index().map(|i| i % (NSLOTS - 1)).unwrap_or(NSLOTS - 1);
    SLOT_IDX.with(|c| c.set(idx));
}

/// tag: 1 = position (80 bytes), 2 = raw board, 3 = text (first byte parser id), 4 = opaque
#[inline]
pub fn set_slot(tag: u8, payload: &[u8]) {
    let idx = my_slot();
    let n = payload.len().min(SLOT_SIZE - 2);
    unsafe {
        let s = &mut (*SLOTS.0.get())[idx];
        s[0] = tag;
        s[1] = n as u8;
        s[2..2 + n].copy_from_slice(&payload[..n]);
    }
}

pub fn pos_bytes(p: &Pos) -> [u8; 80] {
    let mut o = [0u8; 80];
    o[..64].copy_from_slice(&p.b);
    o[64] = p.stm;
    for i in 0..4 {
        o[65 + i] = p.cr[i] as u8;
    }
    o[69] = p.ep.map(|e| e + 1).unwrap_or(0);
    o[70..74].copy_from_slice(&p.hmc.to_le_bytes());
    o[74..78].copy_from_slice(&p.fmn.to_le_bytes());
    o
}

pub fn pos_from_bytes(o: &[u8]) -> Pos {
    let mut b = [0u8; 64];
    b.copy_from_slice(&o[..64]);
    Pos {
        b,
        stm: o[64],
        cr: [o[65] != 0, o[66] != 0, o[67] != 0, o[68] != 0],
        ep: if o[69] == 0 { None } else { Some(o[69] - 1) },
        hmc: u32::from_le_bytes([o[70], o[71], o[72], o[73]]),
        fmn: u32::from_le_bytes([o[74], o[75], o[76], o[77]]),
    }
}

#[inline]
pub fn set_slot_pos(p: &Pos) {
    set_slot(1, &pos_bytes(p));
}

/// a position reached by a history on the real board: root position + (from, to, promotion) per ply
pub fn set_slot_hist(root: &Pos, path: &[Mv]) {
    let mut v = Vec::with_capacity(80 + 3 * path.len());
    v.extend_from_slice(&pos_bytes(root));
    for m in path {
        v.extend_from_slice(&[m.from, m.to, m.promo]);
    }
    set_slot(5, &v);
}

/// a chain-sweep line (C19): family (0 = LONG, 1 = REP), index, a, b, length bound
pub fn set_slot_chainline(family: u8, idx: u16, a: u16, b: u16, max: u16) {
    let mut v = vec![family];
    for x in [idx, a, b, max] {
        v.extend_from_slice(&x.to_le_bytes());
    }
    set_slot(6, &v);
}

pub fn set_slot_raw(r: &RawPos) {
    let p = Pos {
        b: r.b,
        stm: r.stm,
        cr: r.cr,
        ep: r.eps,
        hmc: r.hmc,
        fmn: r.fmn,
    };
    set_slot(2, &pos_bytes(&p));
}

pub fn set_slot_text(parser: u8, text: &str) {
    if text.len() > SLOT_SIZE - 3 {
        return; // would be truncated: keep the descriptor the caller has put there
    }
    let mut v = Vec::with_capacity(text.len() + 1);
    v.push(parser);
    v.extend_from_slice(text.as_bytes());
    set_slot(3, &v);
}

extern "C" fn crash_handler(sig: libc::c_int) {
    let fd = CRASH_FD.load(Ordering::Relaxed);
    if fd >= 0 {
        let idx = my_slot() as u8;
        unsafe {
            let hdr = [0xC7u8, sig as u8, idx];
            libc::write(fd, hdr.as_ptr() as *const libc::c_void, 3);
            let slots = &*SLOTS.0.get();
            libc::write(
                fd,
                slots.as_ptr() as *const libc::c_void,
                SLOT_SIZE * NSLOTS,
            );
            libc::fsync(fd);
        }
    }
    unsafe {
        libc::_exit(128 + sig);
    }
}

pub fn install_crash_handler(path: &str) {
    let c = std::ffi::CString::new(path).unwrap();
    let fd = unsafe {
        libc::open(
            c.as_ptr(),
            libc::O_WRONLY | libc::O_CREAT | libc::O_TRUNC,
            0o644,
        )
    };
    CRASH_FD.store(fd, Ordering::Relaxed);
    for sig in [
        libc::SIGSEGV,
        libc::SIGBUS,
        libc::SIGILL,
        libc::SIGABRT,
        libc::SIGFPE,
    ] {
        unsafe {
            let mut sa: libc::sigaction = std::mem::zeroed();
            sa.sa_sigaction = crash_handler as *const () as usize;
            sa.sa_flags = libc::SA_NODEFER;
            libc::sigaction(sig, &sa, std::ptr::null_mut());
        }
    }
}

pub fn install_panic_hook() {
    std::panic::set_hook(Box::new(|info| {
        let msg = if let Some(s) = info.payload().downcast_ref::<&str>() {
            s.to_string()
        } else if let Some(s) = info.payload().downcast_ref::<String>() {
            s.clone()
        } else {
            "panic".to_string()
        };
        let loc = info
            .location()
            .map(|l| format!(" at {}:{}", l.file(), l.line()))
            .unwrap_or_default();
        LAST_PANIC.with(|p| *p.borrow_mut() = format!("{}{}", msg, loc));
        if std::env::var_os("OWLMC_VERBOSE_PANIC").is_some() {
            eprintln!("[panic] {}{}", msg, loc);
        }
    }));
}

pub fn last_panic() -> String {
    LAST_PANIC.with(|p| p.borrow().clone())
}

/// run `f`, turning an unwinding panic into `Err(message)`
pub fn guarded<T>(f: impl FnOnce() -> T) -> Result<T, String> {
    match catch_unwind(AssertUnwindSafe(f)) {
        Ok(v) => Ok(v),
        Err(_) => Err(last_panic()),
    }
}

/// decode a crash file into candidate cases (crashing thread's first)
pub fn decode_crash(path: &str) -> Vec<(u8, Vec<u8>)> {
    let data = match std::fs::read(path) {
        Ok(d) => d,
        Err(_) => return vec![],
    };
    if data.len() < 3 + SLOT_SIZE * NSLOTS || data[0] != 0xC7 {
        return vec![];
    }
    let idx = data[2] as usize;
    let mut order: Vec<usize> = vec![idx];
    order.extend((0..NSLOTS).filter(|&i| i != idx));
    let mut res = Vec::new();
    for i in order {
        let s = &data[3 + i * SLOT_SIZE..3 + (i + 1) * SLOT_SIZE];
        if s[0] == 0 {
            continue;
        }
        let n = s[1] as usize;
        res.push((s[0], s[2..2 + n].to_vec()));
    }
    res
}

// ---------------------------------------------------------------------------------------------
// run state

#[derive(Clone, Copy, PartialEq, Eq, Debug)]
pub enum Tier {
    Quick,
    Thorough,
}

pub struct Run {
    pub id: &'static str,
    pub tier: Tier,
    pub seed: i64,
    pub start: Instant,
    pub budget_s: f64,
    pub total: Ctx,
    pub universes: Vec<Value>,
    pub counter_names: &'static [&'static str],
    pub max_idx: &'static [usize],
    pub exhaustive: bool,
    pub caps: Vec<String>,
    pub assumptions: Vec<String>,
    pub notes: Vec<String>,
    pub cancel: AtomicBool,
    pub release_build: bool,
}

impl Run {
    pub fn new(id: &'static str, tier: Tier) -> Run {
        let seed = std::env::var("VERIF_SEED")
            .ok()
            .and_then(|s| s.parse().ok())
            .unwrap_or(0);
        let budget_s = std::env::var("OWLMC_BUDGET_S")
            .ok()
            .and_then(|s| s.parse().ok())
            .unwrap_or(match tier {
                Tier::Quick => 150.0,
                Tier::Thorough => 1700.0,
            });
        Run {
            id,
            tier,
            seed,
            start: Instant::now(),
            budget_s,
            total: Ctx::new(),
            universes: Vec::new(),
            counter_names: &[],
            max_idx: &[],
            exhaustive: true,
            caps: Vec::new(),
            assumptions: Vec::new(),
            notes: Vec::new(),
            cancel: AtomicBool::new(false),
            release_build: !cfg!(debug_assertions),
        }
    }

    pub fn thorough(&self) -> bool {
        self.tier == Tier::Thorough
    }

    pub fn out_of_time(&self) -> bool {
        self.start.elapsed().as_secs_f64() > self.budget_s
    }

    /// Run `shards` shards in parallel; `f(ctx, shard)` explores one shard completely.
    /// Shards that start after the time budget is exhausted are skipped and reported as a cap.
    pub fn par_shards(
        &mut self,
        name: &str,
        shards: usize,
        f: impl Fn(&mut Ctx, usize) + Sync,
    ) {
        let t0 = Instant::now();
        let skipped = AtomicU64::new(0);
        let start = self.start;
        let budget = self.budget_s;
        let max_idx = self.max_idx;
        let ctxs: Vec<Ctx> = (0..shards)
            .into_par_iter()
            .map(|sh| {
                let mut ctx = Ctx::new();
                if start.elapsed().as_secs_f64() > budget {
                    skipped.fetch_add(1, Ordering::Relaxed);
                    return ctx;
                }
                bind_slot();
                if let Err(msg) = guarded(|| f(&mut ctx, sh)) {
                    // a panic that escaped the per-case guards: harness or subject; report it
                    ctx.violate(
                        json!({"kind": "shard", "universe": name, "shard": sh}),
                        format!("panic while exploring shard: {}", msg),
                    );
                }
                ctx
            })
            .collect();
        let mut u = Ctx::new();
        for c in ctxs {
            u.merge(c, max_idx);
        }
        let sk = skipped.load(Ordering::Relaxed);
        if sk > 0 {
            self.exhaustive = false;
            self.caps.push(format!(
                "universe {}: time budget {}s exhausted, {} of {} shards not explored",
                name, budget, sk, shards
            ));
        }
        self.universes.push(json!({
            "universe": name,
            "shards": shards,
            "shards_skipped": sk,
            "states": u.states,
            "transitions": u.transitions,
            "violations": u.nviol,
            "wall_s": (t0.elapsed().as_secs_f64() * 1000.0).round() / 1000.0,
        }));
        eprintln!(
            "[{}] {:<28} states={:<12} transitions={:<13} viol={} {:.1}s",
            self.id,
            name,
            u.states,
            u.transitions,
            u.nviol,
            t0.elapsed().as_secs_f64()
        );
        self.total.merge(u, max_idx);
    }

    /// sequential section with its own accounting
    pub fn seq(&mut self, name: &str, f: impl FnOnce(&mut Ctx)) {
        let t0 = Instant::now();
        let mut ctx = Ctx::new();
        bind_slot();
        if let Err(msg) = guarded(|| f(&mut ctx)) {
            ctx.violate(
                json!({"kind": "section", "universe": name}),
                format!("panic while exploring: {}", msg),
            );
        }
        self.universes.push(json!({
            "universe": name,
            "states": ctx.states,
            "transitions": ctx.transitions,
            "violations": ctx.nviol,
            "wall_s": (t0.elapsed().as_secs_f64() * 1000.0).round() / 1000.0,
        }));
        eprintln!(
            "[{}] {:<28} states={:<12} transitions={:<13} viol={} {:.1}s",
            self.id,
            name,
            ctx.states,
            ctx.transitions,
            ctx.nviol,
            t0.elapsed().as_secs_f64()
        );
        let max_idx = self.max_idx;
        self.total.merge(ctx, max_idx);
    }
}

// ---------------------------------------------------------------------------------------------
// cases

pub fn case_pos(p: &Pos, what: &str) -> Value {
    json!({"kind": "pos", "fen": text::fen(p), "what": what})
}

pub fn case_pos_mv(p: &Pos, what: &str, m: Mv) -> Value {
    json!({"kind": "pos", "fen": text::fen(p), "what": what, "move": text::uci(m), "flag": m.flag})
}

pub fn rawpos_json(r: &RawPos) -> Value {
    let cells: String = r
        .b
        .iter()
        .map(|&c| if c == EMPTY { '.' } else { text::cell_char(c) })
        .collect();
    json!({"cells": cells, "stm": r.stm, "cr": r.cr.iter().map(|&x| x as u8).collect::<Vec<_>>(),
           "eps": r.eps, "hmc": r.hmc, "fmn": r.fmn})
}

pub fn rawpos_from_json(v: &Value) -> Option<RawPos> {
    let cells = v.get("cells")?.as_str()?;
    if cells.len() != 64 {
        return None;
    }
    let mut b = [EMPTY; 64];
    for (i, ch) in cells.chars().enumerate() {
        b[i] = match ch {
            '.' => EMPTY,
            _ => {
                let k = match ch.to_ascii_lowercase() {
                    'p' => P,
                    'n' => N,
                    'b' => B,
                    'r' => R,
                    'q' => Q,
                    'k' => K,
                    _ => return None,
                };
                mk(if ch.is_ascii_lowercase() { 1 } else { 0 }, k)
            }
        };
    }
    let crv = v.get("cr")?.as_array()?;
    let mut cr = [false; 4];
    for i in 0..4 {
        cr[i] = crv.get(i)?.as_u64()? != 0;
    }
    Some(RawPos {
        b,
        stm: v.get("stm")?.as_u64()? as u8,
        cr,
        eps: v.get("eps").and_then(|e| e.as_u64()).map(|e| e as u8),
        hmc: v.get("hmc")?.as_u64()? as u32,
        fmn: v.get("fmn")?.as_u64()? as u32,
    })
}

pub fn case_raw(r: &RawPos, what: &str) -> Value {
    json!({"kind": "raw", "raw": rawpos_json(r), "what": what})
}

pub fn case_key(case: &Value) -> String {
    serde_json::to_string(case).unwrap_or_default()
}

/// position of a "pos" case
pub fn pos_of_case(case: &Value) -> Option<Pos> {
    text::read_fen(case.get("fen")?.as_str()?)
}

// ---------------------------------------------------------------------------------------------
// legs in another build configuration

/// Run `<release exe> leg <id> <tier>` and merge its result into this run.
pub fn spawn_release_leg(run: &mut Run, name: &str) {
    let tier = if run.tier == Tier::Quick { "quick" } else { "thorough" };
    spawn_leg_exe(run, name, "OWLMC_REL", tier, &[], "release (no debug assertions, no overflow checks)");
}

/// the same leg in another binary named by the environment variable `var` (release build,
/// AddressSanitizer build); `envs` are extra environment variables for the child
pub fn spawn_leg_exe(run: &mut Run, name: &str, var: &str, tier: &str, envs: &[(&str, &str)], config: &str) {
    let exe = match std::env::var(var) {
        Ok(e) if std::path::Path::new(&e).exists() => e,
        _ => {
            run.notes.push(format!("{}: binary not available ({} unset or missing); leg skipped - the verdict rests on the other configurations", name, var));
            if var == "OWLMC_REL" {
                run.exhaustive = false;
                run.caps.push(format!("{}: release-configuration binary not available", name));
            }
            return;
        }
    };
    let t0 = Instant::now();
    let mut cmd = std::process::Command::new(&exe);
    cmd.args(["leg", run.id, tier]);
    for (k, v) in envs {
        cmd.env(k, v);
    }
    let out = cmd.output();
    let out = match out {
        Ok(o) => o,
        Err(e) => {
            run.total.violate(json!({"kind": "section", "universe": name}), format!("cannot run release leg: {}", e));
            return;
        }
    };
    let stdout = String::from_utf8_lossy(&out.stdout).to_string();
    let line = stdout.lines().find(|l| l.starts_with("LEG-RESULT "));
    let Some(line) = line else {
        // the release build died inside an owlchess call: that is a finding about the optimised
        // configuration, located only as far as the leg (the checked configuration explores the
        // same cases with assertions armed)
        run.total.violate(
            json!({"kind": "section", "universe": name, "status": format!("{:?}", out.status)}),
            format!("leg [{}] terminated abnormally: {:?}; stderr: {}", config, out.status,
                {
                    let e = String::from_utf8_lossy(&out.stderr);
                    let san: Vec<&str> = e.lines().filter(|l| l.contains("ERROR: AddressSanitizer") || l.contains("SUMMARY:") || l.contains("panicked")).take(4).collect();
                    if san.is_empty() { e.lines().rev().take(3).collect::<Vec<_>>().join(" | ") } else { san.join(" | ") }
                }),
        );
        return;
    };
    let v: Value = serde_json::from_str(&line["LEG-RESULT ".len()..]).unwrap_or(Value::Null);
    let states = v["states"].as_u64().unwrap_or(0);
    let transitions = v["transitions"].as_u64().unwrap_or(0);
    run.total.states += states;
    run.total.transitions += transitions;
    run.total.traces += v["traces"].as_u64().unwrap_or(0);
    let mut nv = 0;
    if let Some(vs) = v["violations"].as_array() {
        for x in vs {
            nv += 1;
            let mut case = x["case"].clone();
            if let Some(o) = case.as_object_mut() {
                o.insert("config".into(), json!(if var == "OWLMC_REL" { "release" } else { "other" }));
            }
            run.total.violate(case, format!("[{}] {}", config, x["msg"].as_str().unwrap_or("")));
        }
    }
    let total_nv = v["nviol"].as_u64().unwrap_or(nv);
    if total_nv > nv {
        run.total.nviol += total_nv - nv;
    }
    run.universes.push(json!({
        "universe": name,
        "config": config,
        "states": states, "transitions": transitions, "violations": total_nv,
        "detail": v["universes"],
        "wall_s": (t0.elapsed().as_secs_f64() * 1000.0).round() / 1000.0,
    }));
    eprintln!("[{}] {:<28} states={:<12} transitions={:<13} viol={} {:.1}s", run.id, name, states, transitions, total_nv, t0.elapsed().as_secs_f64());
}

pub fn print_leg_result(run: &Run) {
    let v = json!({
        "states": run.total.states,
        "transitions": run.total.transitions,
        "traces": run.total.traces,
        "nviol": run.total.nviol,
        "violations": run.total.viol.iter().map(|v| json!({"case": v.case, "msg": v.msg})).collect::<Vec<_>>(),
        "universes": run.universes,
    });
    println!("LEG-RESULT {}", serde_json::to_string(&v).unwrap());
}
