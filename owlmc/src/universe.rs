//! Universes: finite sets of model positions defined by a rule and enumerated completely, in a
//! fixed order, shard by shard.

use crate::model::text::read_fen;
use crate::model::*;
use std::collections::HashSet;

pub type Sink<'a> = &'a mut dyn FnMut(&Pos);

/// For a placement (squares + side to move; rights/ep ignored) emit every variant of castling
/// rights and en-passant mark that survives validation in normal form, provided the placement
/// itself is valid.
pub fn expand_variants(base: &Pos, f: Sink) {
    let mut p = *base;
    p.cr = [false; 4];
    p.ep = None;
    if !RawPos::from_pos(&p).reasons().is_empty() {
        return;
    }
    expand_variants_prevalidated(&p, f);
}

/// same, but the caller guarantees the placement is valid
pub fn expand_variants_prevalidated(base: &Pos, f: Sink) {
    let mut p = *base;
    p.cr = [false; 4];
    p.ep = None;
    let mut avail = [false; 4];
    for (i, (rf, hr, col)) in [(7, 0, 0u8), (0, 0, 0), (7, 7, 1), (0, 7, 1)]
        .iter()
        .enumerate()
    {
        avail[i] = p.b[sq(4, *hr)] == mk(*col, K) && p.b[sq(*rf, *hr)] == mk(*col, R);
    }
    let mut eps: Vec<Option<u8>> = vec![None];
    let pr = ep_pawn_rank(p.stm);
    let behind_r = if p.stm == 0 { pr + 1 } else { pr - 1 };
    for file in 0..8 {
        if p.b[sq(file, pr)] == mk(1 - p.stm, P) && p.b[sq(file, behind_r)] == EMPTY {
            eps.push(Some(sq(file, behind_r) as u8));
        }
    }
    for mask in 0..16u8 {
        let mut ok = true;
        let mut cr = [false; 4];
        for i in 0..4 {
            if mask >> i & 1 != 0 {
                if !avail[i] {
                    ok = false;
                    break;
                }
                cr[i] = true;
            }
        }
        if !ok {
            continue;
        }
        for &e in &eps {
            let mut q = p;
            q.cr = cr;
            q.ep = e;
            f(&q);
        }
    }
}

fn emit_if_valid(p: &Pos, f: Sink) {
    if is_valid_normal(p) {
        f(p);
    }
}

// ---------------------------------------------------------------------------------------------
// M2/M3: both kings + at most one further man

pub const M3_SHARDS: usize = 64;

pub fn m3(shard: usize, f: Sink) {
    let wk = shard;
    for bk in 0..64 {
        if bk == wk {
            continue;
        }
        for stm in 0..2u8 {
            let mut p = Pos::empty();
            p.stm = stm;
            p.b[wk] = K;
            p.b[bk] = K | BLACK;
            expand_variants(&p, f);
            for x in 0..64 {
                if x == wk || x == bk {
                    continue;
                }
                for &c in &MEN {
                    let mut q = p;
                    q.b[x] = c;
                    expand_variants(&q, f);
                }
            }
        }
    }
}

// ---------------------------------------------------------------------------------------------
// M4: both kings + exactly two further men; shard = wk * 64 + bk

pub const M4_SHARDS: usize = 4096;

pub fn m4(shard: usize, f: Sink) {
    m4_x(shard, None, f)
}

/// the part of an M4 shard whose lower extra man stands on square `only_x` (all of it for None)
pub fn m4_x(shard: usize, only_x: Option<usize>, f: Sink) {
    let wk = shard / 64;
    let bk = shard % 64;
    if wk == bk {
        return;
    }
    // adjacent kings are never valid
    if (file_of(wk) - file_of(bk)).abs() <= 1 && (rank_of(wk) - rank_of(bk)).abs() <= 1 {
        return;
    }
    for stm in 0..2u8 {
        let mut p = Pos::empty();
        p.stm = stm;
        p.b[wk] = K;
        p.b[bk] = K | BLACK;
        for x in 0..64 {
            if x == wk || x == bk || only_x.map_or(false, |o| o != x) {
                continue;
            }
            for &c in &MEN {
                if kind(c) == P && (x / 8 == 0 || x / 8 == 7) {
                    continue;
                }
                let mut q = p;
                q.b[x] = c;
                for y in (x + 1)..64 {
                    if y == wk || y == bk {
                        continue;
                    }
                    for &d in &MEN {
                        if kind(d) == P && (y / 8 == 0 || y / 8 == 7) {
                            continue;
                        }
                        let mut r = q;
                        r.b[y] = d;
                        // by construction: one king each, 4 men, no back-rank pawns; what is
                        // left of validity is "side not to move not in check"
                        if r.in_check(1 - stm) {
                            continue;
                        }
                        expand_variants_prevalidated(&r, f);
                    }
                }
            }
        }
    }
}

// ---------------------------------------------------------------------------------------------
// RAY: arrangements of <= n men on one ray from the own king

pub const RAY_SHARDS: usize = 64 * 2;

fn ray_squares(k: usize, d: (i32, i32)) -> Vec<usize> {
    let mut v = Vec::new();
    let (mut x, mut y) = (file_of(k) + d.0, rank_of(k) + d.1);
    while on(x, y) {
        v.push(sq(x, y));
        x += d.0;
        y += d.1;
    }
    v
}

pub fn ray(shard: usize, max_men: usize, f: Sink) {
    let k = shard / 2;
    let stm = (shard % 2) as u8;
    let own = stm;
    let opp = 1 - stm;
    let alphabet: Vec<u8> = [N, B, R, Q, P]
        .iter()
        .map(|&t| mk(own, t))
        .chain([N, B, R, Q, P].iter().map(|&t| mk(opp, t)))
        .collect();
    for d in KG {
        let rs = ray_squares(k, d);
        if rs.is_empty() {
            continue;
        }
        // enemy king squares: up to 3 fixed far squares, not on the ray, not adjacent to k
        let mut eks = Vec::new();
        for &c in &[0usize, 63, 7, 56, 27, 36, 2, 61] {
            if c == k || rs.contains(&c) {
                continue;
            }
            if (file_of(c) - file_of(k)).abs() <= 1 && (rank_of(c) - rank_of(k)).abs() <= 1 {
                continue;
            }
            eks.push(c);
            if eks.len() == 3 {
                break;
            }
        }
        let mut base = Pos::empty();
        base.stm = stm;
        base.b[k] = mk(own, K);
        // recursive placement of up to max_men men on increasing ray indices
        fn rec(
            p: &Pos,
            rs: &[usize],
            from: usize,
            left: usize,
            alphabet: &[u8],
            eks: &[usize],
            opp: u8,
            f: Sink,
        ) {
            for &ek in eks {
                if p.b[ek] != EMPTY {
                    continue;
                }
                let mut q = *p;
                q.b[ek] = mk(opp, K);
                expand_variants(&q, f);
            }
            if left == 0 {
                return;
            }
            for i in from..rs.len() {
                for &c in alphabet {
                    let mut q = *p;
                    q.b[rs[i]] = c;
                    rec(&q, rs, i + 1, left - 1, alphabet, eks, opp, f);
                }
            }
        }
        rec(&base, &rs, 0, max_men, &alphabet, &eks, opp, f);
    }
}

// ---------------------------------------------------------------------------------------------
// PIN2: two simultaneous pin (or x-ray) lines through the own king

/// shard = own king square * 2 + side
pub const PIN2_SHARDS: usize = 128;

/// For every pair of different directions from the own king: on each ray an own man at distance
/// i and an enemy slider at distance j > i (i, j <= max_dist), own men from {N, Q, P}, enemy men
/// from {B, R, Q} (so that each line is a real pin, or not, by type); enemy king on a far square.
pub fn pin2(shard: usize, max_dist: usize, f: Sink) {
    let k = shard / 2;
    let stm = (shard % 2) as u8;
    let own = stm;
    let opp = 1 - stm;
    let owns = [mk(own, N), mk(own, Q), mk(own, P)];
    let opps = [mk(opp, B), mk(opp, R), mk(opp, Q)];
    let rays: Vec<Vec<usize>> = KG.iter().map(|&d| ray_squares(k, d)).collect();
    for d1 in 0..8 {
        for d2 in (d1 + 1)..8 {
            let (r1, r2) = (&rays[d1], &rays[d2]);
            if r1.len() < 2 || r2.len() < 2 {
                continue;
            }
            // enemy king: first far square not on either ray and not near the own king
            let ek = [0usize, 63, 7, 56, 27, 36, 2, 61, 16, 47].iter().cloned().find(|&c| {
                c != k && !r1.contains(&c) && !r2.contains(&c) && ((file_of(c) - file_of(k)).abs() > 1 || (rank_of(c) - rank_of(k)).abs() > 1)
            });
            let Some(ek) = ek else { continue };
            for i1 in 0..r1.len().min(max_dist) {
                for j1 in (i1 + 1)..r1.len().min(max_dist + 1) {
                    for i2 in 0..r2.len().min(max_dist) {
                        for j2 in (i2 + 1)..r2.len().min(max_dist + 1) {
                            for &o1 in &owns {
                                for &e1 in &opps {
                                    for &o2 in &owns {
                                        for &e2 in &opps {
                                            let mut p = Pos::empty();
                                            p.stm = stm;
                                            p.b[k] = mk(own, K);
                                            p.b[ek] = mk(opp, K);
                                            p.b[r1[i1]] = o1;
                                            p.b[r1[j1]] = e1;
                                            p.b[r2[i2]] = o2;
                                            p.b[r2[j2]] = e2;
                                            emit_if_valid(&p, f);
                                        }
                                    }
                                }
                            }
                        }
                    }
                }
            }
        }
    }
}

// ---------------------------------------------------------------------------------------------
// OCC: the slider-table universe at position level: every subset of blockers on the rays of a
// square, realised as a valid position

/// shard = square
pub const OCC_SHARDS: usize = 64;

/// For the square `shard` and each slider geometry (rook lines, bishop lines): every subset of
/// the squares on those lines is occupied by queens of colour X (at most 14), the kings stand on
/// the first two admissible squares off the lines, and the side to move is the other colour Y
/// (so the position is valid whatever the subset). Colour X alternates with the subset parity.
pub fn occ(shard: usize, f: Sink) {
    let s = shard;
    for dirs in [&ORTH[..], &DIAG[..]] {
        let mut rays: Vec<usize> = Vec::new();
        for &d in dirs {
            rays.extend(ray_squares(s, d));
        }
        let free: Vec<usize> = (0..64).filter(|c| *c != s && !rays.contains(c)).collect();
        // kings: two non-adjacent squares off the lines
        let mut ks = None;
        'o: for &a in &free {
            for &b in &free {
                if a != b && ((file_of(a) - file_of(b)).abs() > 1 || (rank_of(a) - rank_of(b)).abs() > 1) {
                    ks = Some((a, b));
                    break 'o;
                }
            }
        }
        let Some((ka, kb)) = ks else { continue };
        for sub in 0..(1u32 << rays.len()) {
            let x = (sub.count_ones() % 2) as u8;
            let mut p = Pos::empty();
            p.stm = 1 - x;
            p.b[ka] = mk(x, K);
            p.b[kb] = mk(1 - x, K);
            for (i, &sq_) in rays.iter().enumerate() {
                if sub >> i & 1 != 0 {
                    p.b[sq_] = mk(x, Q);
                }
            }
            emit_if_valid(&p, f);
            // mode B: a slider of colour X stands on the square itself and is to move; the
            // blockers are knights of the other colour (captures and quiet moves along the lines)
            let slider = if dirs[0] == ORTH[0] { R } else { B };
            for piece in [slider, Q] {
                let mut q = Pos::empty();
                q.stm = x;
                q.b[ka] = mk(x, K);
                q.b[kb] = mk(1 - x, K);
                q.b[s] = mk(x, piece);
                for (i, &sq_) in rays.iter().enumerate() {
                    if sub >> i & 1 != 0 {
                        q.b[sq_] = mk(1 - x, N);
                    }
                }
                emit_if_valid(&q, f);
            }
        }
    }
}

// ---------------------------------------------------------------------------------------------
// EP: en-passant shapes

/// shard = own king square * 2 + side
pub const EP_SHARDS: usize = 128;

pub const SPREAD8: [usize; 8] = [4, 60, 0, 63, 18, 45, 31, 32]; // e1 e8 a1 h8 c3 f6 h4 a5

pub fn ep(shard: usize, full: bool, f: Sink) {
    let ok_sq = shard / 2;
    let stm = (shard % 2) as u8;
    let own = stm;
    let opp = 1 - stm;
    let pr = ep_pawn_rank(stm); // rank of both pawns
    let behind = if stm == 0 { pr + 1 } else { pr - 1 };
    // shapes: (victim file, capturer files)
    let mut shapes: Vec<(i32, Vec<i32>)> = Vec::new();
    for fv in 0..8 {
        if fv > 0 {
            shapes.push((fv, vec![fv - 1]));
        }
        if fv < 7 {
            shapes.push((fv, vec![fv + 1]));
        }
        if fv > 0 && fv < 7 {
            shapes.push((fv, vec![fv - 1, fv + 1]));
        }
    }
    let eks: Vec<usize> = if full {
        (0..64).collect()
    } else {
        SPREAD8.to_vec()
    };
    let extras: Vec<u8> = if full {
        MEN.to_vec()
    } else {
        vec![mk(opp, N), mk(opp, B), mk(opp, R), mk(opp, Q)]
    };
    for (fv, caps) in &shapes {
        let mut p = Pos::empty();
        p.stm = stm;
        p.b[sq(*fv, pr)] = mk(opp, P);
        for &fc in caps {
            p.b[sq(fc, pr)] = mk(own, P);
        }
        if p.b[ok_sq] != EMPTY || ok_sq == sq(*fv, behind) {
            continue;
        }
        p.b[ok_sq] = mk(own, K);
        p.ep = Some(sq(*fv, behind) as u8);
        for &ek in &eks {
            if p.b[ek] != EMPTY || ek == sq(*fv, behind) {
                continue;
            }
            let mut q = p;
            q.b[ek] = mk(opp, K);
            emit_if_valid(&q, f);
            for x in 0..64 {
                if q.b[x] != EMPTY || x == sq(*fv, behind) {
                    continue;
                }
                for &c in &extras {
                    let mut r = q;
                    r.b[x] = c;
                    emit_if_valid(&r, f);
                }
            }
        }
    }
}

// ---------------------------------------------------------------------------------------------
// CASTLE

/// shard = enemy king square * 2 + side
pub const CASTLE_SHARDS: usize = 128;

pub fn castle(shard: usize, second_man: bool, f: Sink) {
    let ek = shard / 2;
    let stm = (shard % 2) as u8;
    let own = stm;
    let opp = 1 - stm;
    let hr = if own == 0 { 0 } else { 7 };
    let second_rank = if own == 0 { 1 } else { 6 };
    for rooks in 1..4u8 {
        let mut p = Pos::empty();
        p.stm = stm;
        p.b[sq(4, hr)] = mk(own, K);
        if rooks & 1 != 0 {
            p.b[sq(0, hr)] = mk(own, R);
        }
        if rooks & 2 != 0 {
            p.b[sq(7, hr)] = mk(own, R);
        }
        if p.b[ek] != EMPTY {
            continue;
        }
        p.b[ek] = mk(opp, K);
        expand_variants(&p, f);
        for x in 0..64 {
            if p.b[x] != EMPTY {
                continue;
            }
            for &t in &[N, B, R, Q, P] {
                let mut q = p;
                q.b[x] = mk(opp, t);
                expand_variants(&q, f);
                if second_man {
                    let mut spots: Vec<usize> =
                        [1, 2, 3, 5, 6].iter().map(|&fl| sq(fl, hr)).collect();
                    spots.extend([3, 4, 5].iter().map(|&fl| sq(fl, second_rank)));
                    for &y in &spots {
                        if q.b[y] != EMPTY {
                            continue;
                        }
                        for &c in &[mk(own, N), mk(own, B), mk(opp, N), mk(opp, B)] {
                            let mut r = q;
                            r.b[y] = c;
                            expand_variants(&r, f);
                        }
                    }
                }
            }
        }
    }
}

// ---------------------------------------------------------------------------------------------
// PROMO

/// shard = pawn file * 2 + side
pub const PROMO_SHARDS: usize = 16;

pub fn promo(shard: usize, full: bool, f: Sink) {
    let pf = (shard / 2) as i32;
    let stm = (shard % 2) as u8;
    let own = stm;
    let opp = 1 - stm;
    let r7 = if own == 0 { 6 } else { 1 };
    let r8 = if own == 0 { 7 } else { 0 };
    let front_alpha = [EMPTY, mk(opp, N), mk(opp, R), mk(opp, Q), mk(own, N)];
    let ks: Vec<usize> = if full {
        (0..64).collect()
    } else {
        SPREAD8.to_vec()
    };
    let fronts: Vec<i32> = [pf - 1, pf, pf + 1]
        .iter()
        .cloned()
        .filter(|x| (0..8).contains(x))
        .collect();
    let combos = 5usize.pow(fronts.len() as u32);
    for combo in 0..combos {
        let mut p = Pos::empty();
        p.stm = stm;
        p.b[sq(pf, r7)] = mk(own, P);
        let mut c = combo;
        for &ff in &fronts {
            p.b[sq(ff, r8)] = front_alpha[c % 5];
            c /= 5;
        }
        // variants with enemy rooks on their home corners (castling rights of the enemy)
        for corner in 0..4u8 {
            let mut pc = p;
            if corner & 1 != 0 {
                if pc.b[sq(0, r8)] != EMPTY && pc.b[sq(0, r8)] != mk(opp, R) {
                    continue;
                }
                pc.b[sq(0, r8)] = mk(opp, R);
            }
            if corner & 2 != 0 {
                if pc.b[sq(7, r8)] != EMPTY && pc.b[sq(7, r8)] != mk(opp, R) {
                    continue;
                }
                pc.b[sq(7, r8)] = mk(opp, R);
            }
            for &ok in &ks {
                if pc.b[ok] != EMPTY {
                    continue;
                }
                for &ek in &ks {
                    if pc.b[ek] != EMPTY || ek == ok {
                        continue;
                    }
                    let mut q = pc;
                    q.b[ok] = mk(own, K);
                    q.b[ek] = mk(opp, K);
                    expand_variants(&q, f);
                }
            }
        }
    }
}

// ---------------------------------------------------------------------------------------------
// SANAMB: several own pieces of one kind

pub const KING_PLACEMENTS: [(usize, usize); 6] =
    [(4, 60), (0, 63), (7, 56), (27, 61), (2, 36), (31, 24)];

/// shard = lowest piece square (0..64)
pub const SANAMB_SHARDS: usize = 64;

pub fn sanamb(shard: usize, npieces: usize, with_pinner: bool, f: Sink) {
    sanamb_k(shard, npieces, with_pinner, KING_PLACEMENTS.len(), f)
}

/// `nk`: how many of the six king placements to use
pub fn sanamb_k(shard: usize, npieces: usize, with_pinner: bool, nk: usize, f: Sink) {
    let s0 = shard;
    for &(wk, bk) in &KING_PLACEMENTS[..nk] {
        for stm in 0..2u8 {
            let own = stm;
            let opp = 1 - stm;
            for &t in &[N, B, R, Q] {
                let mut base = Pos::empty();
                base.stm = stm;
                base.b[wk] = K;
                base.b[bk] = K | BLACK;
                if base.b[s0] != EMPTY {
                    continue;
                }
                base.b[s0] = mk(own, t);
                fn rec(
                    p: &Pos,
                    from: usize,
                    left: usize,
                    c: u8,
                    with_pinner: bool,
                    opp: u8,
                    f: Sink,
                ) {
                    if left == 0 {
                        emit_if_valid(p, f);
                        if with_pinner {
                            for &x in &[0usize, 7, 56, 63, 3, 59, 24, 31] {
                                if p.b[x] != EMPTY {
                                    continue;
                                }
                                for &e in &[mk(opp, R), mk(opp, B)] {
                                    let mut q = *p;
                                    q.b[x] = e;
                                    emit_if_valid(&q, f);
                                }
                            }
                        }
                        return;
                    }
                    for x in from..64 {
                        if p.b[x] != EMPTY {
                            continue;
                        }
                        let mut q = *p;
                        q.b[x] = c;
                        rec(&q, x + 1, left - 1, c, with_pinner, opp, f);
                    }
                }
                rec(&base, s0 + 1, npieces - 1, mk(own, t), with_pinner, opp, f);
            }
        }
    }
}

// ---------------------------------------------------------------------------------------------
// BATTERY: two enemy sliders behind each other on a line through the own king, plus one own man

/// shard = own king square * 2 + side
pub const BATTERY_SHARDS: usize = 128;

/// On each ray from the own king: an enemy slider X at distance i and a second enemy slider Y
/// behind it at distance j (i < j <= max_dist), X and Y from {line slider of that direction, Q};
/// one own man T in {N, B, R, Q} on any other square (it may capture X, interpose, or be
/// irrelevant); enemy king on the first admissible far square. `wide`: X, Y range over {B, R, Q}
/// regardless of the direction (also non-attacking combinations).
pub fn battery(shard: usize, max_dist: usize, wide: bool, f: Sink) {
    let k = shard / 2;
    let stm = (shard % 2) as u8;
    let own = stm;
    let opp = 1 - stm;
    for d in KG {
        let rs = ray_squares(k, d);
        let diag = d.0 != 0 && d.1 != 0;
        let line = if diag { B } else { R };
        let sliders: Vec<u8> = if wide { vec![B, R, Q] } else { vec![line, Q] };
        for i in 0..rs.len().min(max_dist) {
            for j in (i + 1)..rs.len().min(max_dist + 1) {
                for &x in &sliders {
                    for &y in &sliders {
                        let mut base = Pos::empty();
                        base.stm = stm;
                        base.b[k] = mk(own, K);
                        base.b[rs[i]] = mk(opp, x);
                        base.b[rs[j]] = mk(opp, y);
                        let ek = [63usize, 0, 56, 7, 36, 27].iter().cloned().find(|&c| base.b[c] == EMPTY && ((file_of(c) - file_of(k)).abs() > 1 || (rank_of(c) - rank_of(k)).abs() > 1));
                        let Some(ek) = ek else { continue };
                        base.b[ek] = mk(opp, K);
                        emit_if_valid(&base, f);
                        for t in 0..64 {
                            if base.b[t] != EMPTY {
                                continue;
                            }
                            for &own_kind in &[N, B, R, Q] {
                                let mut p = base;
                                p.b[t] = mk(own, own_kind);
                                emit_if_valid(&p, f);
                            }
                        }
                    }
                }
            }
        }
    }
}

// ---------------------------------------------------------------------------------------------
// PROMO2: two own pawns on the seventh rank that can both capture on the same promotion square

/// shard = own king square * 2 + side
pub const PROMO2_SHARDS: usize = 128;

/// Pawns on files f-1 and f+1 of the seventh rank, an enemy man (N, B, R, Q) on (f, 8), own
/// king anywhere, enemy king on 8 spread squares, and nothing or one enemy slider (B, R, Q)
/// anywhere (pins one of the pawns, or gives a check that only one capture answers).
pub fn promo2(shard: usize, f: Sink) {
    let ok = shard / 2;
    let stm = (shard % 2) as u8;
    let own = stm;
    let opp = 1 - stm;
    let r7 = if own == 0 { 6 } else { 1 };
    let r8 = if own == 0 { 7 } else { 0 };
    for file in 1..7 {
        for &victim in &[N, B, R, Q] {
            let mut p = Pos::empty();
            p.stm = stm;
            p.b[sq(file - 1, r7)] = mk(own, P);
            p.b[sq(file + 1, r7)] = mk(own, P);
            p.b[sq(file, r8)] = mk(opp, victim);
            if p.b[ok] != EMPTY {
                continue;
            }
            p.b[ok] = mk(own, K);
            for &ek in &SPREAD8 {
                if p.b[ek] != EMPTY {
                    continue;
                }
                let mut q = p;
                q.b[ek] = mk(opp, K);
                emit_if_valid(&q, f);
                for x in 0..64 {
                    if q.b[x] != EMPTY {
                        continue;
                    }
                    for &sl in &[B, R, Q] {
                        let mut r = q;
                        r.b[x] = mk(opp, sl);
                        emit_if_valid(&r, f);
                    }
                }
            }
        }
    }
}

// ---------------------------------------------------------------------------------------------
// PAWNCAP2: two own pawns on one file, each with something to capture on the same neighbour file

/// shard = own king square * 2 + side
pub const PAWNCAP2_SHARDS: usize = 128;

/// Own pawns on (f, r1) and (f, r2), enemy knights diagonally ahead of both on the same
/// neighbouring file, own king on a 4x4 lattice of squares, enemy king on 2 spread squares, nothing or one enemy
/// slider anywhere: the abbreviated capture text "fg" names two pseudo-legal captures, of which
/// zero, one or two are legal.
pub fn pawncap2(shard: usize, f: Sink) {
    let ok = shard / 2;
    // own king on the 16 squares of a fixed 4x4 lattice (every other file and rank)
    if file_of(ok) % 2 != 0 || rank_of(ok) % 2 != 1 {
        return;
    }
    let stm = (shard % 2) as u8;
    let own = stm;
    let opp = 1 - stm;
    let dir: i32 = if own == 0 { 1 } else { -1 };
    // ranks from which a capture is not a promotion
    let ranks: Vec<i32> = if own == 0 { (1..6).collect() } else { (2..7).collect() };
    for file in 0..8i32 {
        for df in [-1i32, 1] {
            let tf = file + df;
            if !(0..8).contains(&tf) {
                continue;
            }
            for (i, &r1) in ranks.iter().enumerate() {
                for &r2 in &ranks[i + 1..] {
                    let mut p = Pos::empty();
                    p.stm = stm;
                    p.b[sq(file, r1)] = mk(own, P);
                    p.b[sq(file, r2)] = mk(own, P);
                    let (t1, t2) = (sq(tf, r1 + dir), sq(tf, r2 + dir));
                    if p.b[t1] != EMPTY || p.b[t2] != EMPTY {
                        continue;
                    }
                    p.b[t1] = mk(opp, N);
                    p.b[t2] = mk(opp, N);
                    if p.b[ok] != EMPTY {
                        continue;
                    }
                    p.b[ok] = mk(own, K);
                    for &ek in &SPREAD8[..2] {
                        if p.b[ek] != EMPTY {
                            continue;
                        }
                        let mut q = p;
                        q.b[ek] = mk(opp, K);
                        emit_if_valid(&q, f);
                        for x in 0..64 {
                            if q.b[x] != EMPTY {
                                continue;
                            }
                            for &sl in &[B, R, Q] {
                                let mut r = q;
                                r.b[x] = mk(opp, sl);
                                emit_if_valid(&r, f);
                            }
                        }
                    }
                }
            }
        }
    }
}

// ---------------------------------------------------------------------------------------------
// SANPIN: three own pieces of one kind, one of them pinned

/// shard = own king square (16 squares of the a1-d4 quadrant) * 2 + side
pub const SANPIN_SHARDS: usize = 32;

/// Own king on a square of the a1-d4 quadrant; on one ray an own piece T at distance 1 or 2 and
/// an enemy slider of the pinning kind one or two squares further; two more own pieces T within
/// the 5x5 block around the pinned piece. T in {N, R, Q}. (The colour-swapped family comes
/// with side = Black and the king quadrant mirrored.)
pub fn sanpin(shard: usize, f: Sink) {
    let stm = (shard % 2) as u8;
    let own = stm;
    let opp = 1 - stm;
    let qi = shard / 2;
    let (kf, kr0) = ((qi % 4) as i32, (qi / 4) as i32);
    let kr = if own == 0 { kr0 } else { 7 - kr0 };
    let k = sq(kf, kr);
    for d in KG {
        let rs = ray_squares(k, d);
        for i in 0..rs.len().min(2) {
            for j in (i + 1)..rs.len().min(i + 3) {
                let diag = d.0 != 0 && d.1 != 0;
                for &t in &[N, R, Q] {
                    for &pinner in &[if diag { B } else { R }, Q] {
                        let mut base = Pos::empty();
                        base.stm = stm;
                        base.b[k] = mk(own, K);
                        base.b[rs[i]] = mk(own, t);
                        base.b[rs[j]] = mk(opp, pinner);
                        let ek = [63usize, 56, 7, 0, 36].iter().cloned().find(|&c| base.b[c] == EMPTY && ((file_of(c) - kf).abs() > 1 || (rank_of(c) - kr).abs() > 1));
                        let Some(ek) = ek else { continue };
                        base.b[ek] = mk(opp, K);
                        let (pf, pr) = (file_of(rs[i]), rank_of(rs[i]));
                        let mut block: Vec<usize> = Vec::new();
                        for x in (pf - 2)..=(pf + 2) {
                            for y in (pr - 2)..=(pr + 2) {
                                if on(x, y) && base.b[sq(x, y)] == EMPTY {
                                    block.push(sq(x, y));
                                }
                            }
                        }
                        for a in 0..block.len() {
                            for b2 in (a + 1)..block.len() {
                                let mut p = base;
                                p.b[block[a]] = mk(own, t);
                                p.b[block[b2]] = mk(own, t);
                                emit_if_valid(&p, f);
                            }
                        }
                    }
                }
            }
        }
    }
}

// ---------------------------------------------------------------------------------------------
// CLOCKS: every value of each counter on a few positions

/// 12 positions x all 65,536 half-move clocks (move number 7) and all 65,536 move numbers
/// (clock 3); shard = chunk of 1024 values
pub const CLOCKS_SHARDS: usize = 64;

pub fn clocks(shard: usize, f: Sink) {
    let fens = [
        "r3k2r/8/8/8/8/8/8/R3K2R w KQkq - 0 1",
        "r3k2r/8/8/8/8/8/8/R3K2R b KQkq - 0 1",
        "4k3/8/8/8/8/8/4P3/4K3 w - - 0 1",
        "4k3/4p3/8/8/8/8/8/4K3 b - - 0 1",
        "4k3/8/8/8/8/8/8/4K1N1 w - - 0 1",
        "7k/8/5KQ1/8/8/8/8/8 b - - 0 1",
    ];
    for fen in fens {
        let base = read_fen(fen).expect("clock fen");
        for i in 0..1024u32 {
            let v = shard as u32 * 1024 + i;
            let mut p = base;
            p.hmc = v;
            p.fmn = 7;
            emit_if_valid(&p, f);
            let mut q = base;
            q.hmc = 3;
            q.fmn = v;
            emit_if_valid(&q, f);
        }
    }
}

// ---------------------------------------------------------------------------------------------
// SANMANY: many own pieces of one kind that can all reach one target square

/// shard = target square
pub const SANMANY_SHARDS: usize = 64;

/// For the target square `shard` and each kind T in {N, B, R, Q}: the candidate origin squares
/// are the knight-jump squares (N) or, per line direction of T, the squares at distance 1 and 2
/// (sliders; at most one piece per direction so that nothing is blocked). Every subset of the
/// origins with at most 10 pieces (knights: all 2^8; sliders: per direction {none, near, far}) is
/// populated with own pieces of kind T; optionally an enemy pawn or nothing on the target.
pub fn sanmany(shard: usize, f: Sink) {
    let t = shard;
    let (tf, tr) = (file_of(t), rank_of(t));
    for &(wk, bk) in &KING_PLACEMENTS[..1] {
        if wk == t || bk == t {
            continue;
        }
        for stm in 0..2u8 {
            let own = stm;
            let opp = 1 - stm;
            for target_content in [EMPTY, mk(opp, N)] {
                let mut base = Pos::empty();
                base.stm = stm;
                base.b[wk] = K;
                base.b[bk] = K | BLACK;
                base.b[t] = target_content;
                // knights: every subset of the jump squares
                let js: Vec<usize> = KN.iter().filter(|(df, dr)| on(tf + df, tr + dr)).map(|(df, dr)| sq(tf + df, tr + dr)).filter(|s| *s != wk && *s != bk).collect();
                for sub in 0..(1u32 << js.len()) {
                    if sub.count_ones() < 2 {
                        continue;
                    }
                    let mut p = base;
                    for (i, &s) in js.iter().enumerate() {
                        if sub >> i & 1 != 0 {
                            p.b[s] = mk(own, N);
                        }
                    }
                    emit_if_valid(&p, f);
                }
                // sliders: per direction none / distance 1 / distance 2
                for (kind_, dirs) in [(B, &DIAG[..]), (R, &ORTH[..]), (Q, &KG[..])] {
                    let n = dirs.len();
                    for code in 0..3usize.pow(n as u32) {
                        let mut p = base;
                        let mut c = code;
                        let mut cnt = 0;
                        let mut ok = true;
                        for &(df, dr) in dirs {
                            let choice = c % 3;
                            c /= 3;
                            if choice == 0 {
                                continue;
                            }
                            let (x, y) = (tf + df * choice as i32, tr + dr * choice as i32);
                            if !on(x, y) || p.b[sq(x, y)] != EMPTY {
                                ok = false;
                                break;
                            }
                            // the square between must be empty for distance 2
                            if choice == 2 && p.b[sq(tf + df, tr + dr)] != EMPTY {
                                ok = false;
                                break;
                            }
                            p.b[sq(x, y)] = mk(own, kind_);
                            cnt += 1;
                        }
                        if ok && cnt >= 3 {
                            emit_if_valid(&p, f);
                        }
                    }
                }
            }
        }
    }
}

// ---------------------------------------------------------------------------------------------
// MATERIAL: bishops / knights of both colours on 8 fixed squares of mixed colour

pub const MATERIAL_SHARDS: usize = 625; // 5^4 for the first four squares

pub fn material(shard: usize, clocks: &[u32], f: Sink) {
    // b1 c1 b2 c2 f7 g7 f8 g8
    let region = [
        sq(1, 0),
        sq(2, 0),
        sq(1, 1),
        sq(2, 1),
        sq(5, 6),
        sq(6, 6),
        sq(5, 7),
        sq(6, 7),
    ];
    let alph = [EMPTY, B, B | BLACK, N, N | BLACK];
    for rest in 0..625usize {
        let mut idx = shard + 625 * rest;
        let mut base = [EMPTY; 64];
        for &s in &region {
            base[s] = alph[idx % 5];
            idx /= 5;
        }
        for &(wk, bk) in &KING_PLACEMENTS {
            if base[wk] != EMPTY || base[bk] != EMPTY {
                continue;
            }
            for stm in 0..2u8 {
                for &hmc in clocks {
                    let mut p = Pos::empty();
                    p.b = base;
                    p.stm = stm;
                    p.hmc = hmc;
                    p.b[wk] = K;
                    p.b[bk] = K | BLACK;
                    emit_if_valid(&p, f);
                }
            }
        }
    }
}

// ---------------------------------------------------------------------------------------------
// BOXED: an own piece without any move (all its first-step squares hold own men) plus a second
// own piece of the same kind elsewhere

/// shard = square of the boxed piece
pub const BOXED_SHARDS: usize = 64;

/// For T in {N, B, R, Q}: T stands on the shard square; every square it could step to first
/// (knight jumps; adjacent squares on its lines) - or, second variant, all eight neighbours - is
/// occupied by own bishops (own knights when T is a bishop or queen... any own man that is not of
/// kind T), the own king replaces one of those blockers or stands far away; a second own T stands
/// on any free square; the enemy king on the first admissible far square. Both colours.
pub fn boxed(shard: usize, f: Sink) {
    let s = shard;
    let (sf, sr) = (file_of(s), rank_of(s));
    for stm in 0..2u8 {
        let own = stm;
        let opp = 1 - stm;
        for &t in &[N, B, R, Q] {
            let first_steps: Vec<usize> = match t {
                N => KN.iter().filter(|(a, b)| on(sf + a, sr + b)).map(|(a, b)| sq(sf + a, sr + b)).collect(),
                B => DIAG.iter().filter(|(a, b)| on(sf + a, sr + b)).map(|(a, b)| sq(sf + a, sr + b)).collect(),
                R => ORTH.iter().filter(|(a, b)| on(sf + a, sr + b)).map(|(a, b)| sq(sf + a, sr + b)).collect(),
                _ => KG.iter().filter(|(a, b)| on(sf + a, sr + b)).map(|(a, b)| sq(sf + a, sr + b)).collect(),
            };
            let all_nb: Vec<usize> = KG.iter().filter(|(a, b)| on(sf + a, sr + b)).map(|(a, b)| sq(sf + a, sr + b)).collect();
            let variants: Vec<Vec<usize>> = if t == N || t == Q { vec![first_steps.clone()] } else { vec![first_steps.clone(), all_nb.clone()] };
            // blockers must not be of kind T and must not be pawns on back ranks: knights, or
            // bishops when T is a knight
            let blocker = if t == N { B } else { N };
            for fill in &variants {
                let mut base = Pos::empty();
                base.stm = stm;
                base.b[s] = mk(own, t);
                for &x in fill {
                    base.b[x] = mk(own, blocker);
                }
                // own king: on each blocker square in turn, or far away
                let mut king_sqs: Vec<usize> = fill.clone();
                if let Some(far) = [63usize, 0, 56, 7, 36, 27].iter().cloned().find(|&c| base.b[c] == EMPTY && c != s) {
                    king_sqs.push(far);
                }
                for &ks in &king_sqs {
                    let mut p = base;
                    p.b[ks] = mk(own, K);
                    let ek = [7usize, 56, 0, 63, 27, 36, 20, 43].iter().cloned().find(|&c| p.b[c] == EMPTY && ((file_of(c) - file_of(ks)).abs() > 1 || (rank_of(c) - rank_of(ks)).abs() > 1));
                    let Some(ek) = ek else { continue };
                    p.b[ek] = mk(opp, K);
                    emit_if_valid(&p, f);
                    for x in 0..64 {
                        if p.b[x] != EMPTY {
                            continue;
                        }
                        let mut q = p;
                        q.b[x] = mk(own, t);
                        emit_if_valid(&q, f);
                    }
                }
            }
        }
    }
}

// ---------------------------------------------------------------------------------------------
// DENSE: boards whose ranks are dense patterns (long FEN board fields, many men)

pub const DENSE_SHARDS: usize = 36;

/// Every rank is one of six patterns (empty, full, the two alternations, two sparse ones); men
/// are white on ranks 1-4 and black on ranks 5-8, kings on a1 / a8. 6^8 boards x 2 sides as RAW
/// boards; `f_raw` sees all of them, `f` the valid ones (at most 16 men a side, nobody in check
/// wrongly).
pub fn dense(shard: usize, f_raw: &mut dyn FnMut(&RawPos), f: Sink) {
    let pats: [[bool; 8]; 6] = [
        [false; 8],
        [true; 8],
        [true, false, true, false, true, false, true, false],
        [false, true, false, true, false, true, false, true],
        [false, false, true, false, false, true, false, false],
        [true, false, false, false, false, false, false, true],
    ];
    let kinds = [N, B, R, Q, N, B, R, Q];
    for rest in 0..6usize.pow(6) {
        let mut code = shard + 36 * rest;
        let mut b = [EMPTY; 64];
        for rank in 0..8 {
            let pat = pats[code % 6];
            code /= 6;
            let col = if rank < 4 { 0 } else { 1 };
            for fl in 0..8 {
                if pat[fl] {
                    b[sq(fl as i32, rank)] = mk(col, kinds[(rank as usize + fl) % 8]);
                }
            }
        }
        b[sq(0, 0)] = K;
        b[sq(0, 7)] = K | BLACK;
        for stm in 0..2u8 {
            // two-digit counters, and five-digit ones (the longest records: up to 89 characters)
            for (hmc, fmn) in [(12u32, 34u32), (65535, 65535)] {
                let r = RawPos { b, stm, cr: [false; 4], eps: None, hmc, fmn };
                f_raw(&r);
                if let Ok(p) = r.validate() {
                    f(&p);
                }
            }
        }
    }
}

// ---------------------------------------------------------------------------------------------
// seeds, COUNTERS, REACH

pub const SEED_FENS: [&str; 11] = [
    "rnbqkbnr/pppppppp/8/8/8/8/PPPPPPPP/RNBQKBNR w KQkq - 0 1",
    "r3k2r/p1ppqpb1/bn2pnp1/3PN3/1p2P3/2N2Q1p/PPPBBPPP/R3K2R w KQkq - 0 1",
    "8/2p5/3p4/KP5r/1R3p1k/8/4P1P1/8 w - - 0 1",
    "r3k2r/Pppp1ppp/1b3nbN/nP6/BBP1P3/q4N2/Pp1P2PP/R2Q1RK1 w kq - 0 1",
    "rnbq1k1r/pp1Pbppp/2p5/8/2B5/8/PPP1NnPP/RNBQK2R w KQ - 1 8",
    "r4rk1/1pp1qppp/p1np1n2/2b1p1B1/2B1P1b1/P1NP1N2/1PP1QPPP/R4RK1 w - - 0 10",
    "n1n5/PPPk4/8/8/8/8/4Kppp/5N1N b - - 0 1",
    "r3k2r/8/8/8/8/8/8/R3K2R w KQkq - 0 1",
    "4k3/1p1p1p1p/8/P1P1P1P1/p1p1p1p1/8/1P1P1P1P/4K3 w - - 0 1",
    "r3k2r/1P4P1/8/8/8/8/1p4p1/R3K2R w KQkq - 0 1",
    "4k3/8/8/8/8/8/8/4K2R w K - 0 1",
];

/// vertical mirror with colours swapped
pub fn mirror_colours(p: &Pos) -> Pos {
    let mut q = Pos::empty();
    for s in 0..64 {
        let c = p.b[s];
        let t = sq(file_of(s), 7 - rank_of(s));
        q.b[t] = if c == EMPTY { EMPTY } else { c ^ BLACK };
    }
    q.stm = 1 - p.stm;
    q.cr = [p.cr[2], p.cr[3], p.cr[0], p.cr[1]];
    q.ep = p
        .ep
        .map(|e| sq(file_of(e as usize), 7 - rank_of(e as usize)) as u8);
    q.hmc = p.hmc;
    q.fmn = p.fmn;
    q
}

/// horizontal mirror (only meaningful without castling rights)
pub fn mirror_files(p: &Pos) -> Pos {
    let mut q = Pos::empty();
    for s in 0..64 {
        q.b[sq(7 - file_of(s), rank_of(s))] = p.b[s];
    }
    q.stm = p.stm;
    q.cr = [false; 4];
    q.ep = p
        .ep
        .map(|e| sq(7 - file_of(e as usize), rank_of(e as usize)) as u8);
    q.hmc = p.hmc;
    q.fmn = p.fmn;
    q
}

pub fn seeds() -> Vec<Pos> {
    let mut v = Vec::new();
    for f in SEED_FENS {
        let p = read_fen(f).expect("seed fen");
        v.push(p);
        v.push(mirror_colours(&p));
    }
    v
}

/// COUNTERS: seed positions x half-move clocks x move numbers around the thresholds and the
/// numeric limit
pub fn counters() -> Vec<Pos> {
    let mut v = Vec::new();
    let ss = seeds();
    let mut clocks: Vec<u32> = (0..=151).collect();
    clocks.extend([254, 255, 256, 257, 258, 32766, 32767, 32768, 32769, 65533, 65534, 65535]);
    // plus a position with a pending en-passant mark and its colour mirror: a mark together with a
    // non-zero clock cannot arise in play but is a valid board
    let mut roots: Vec<Pos> = ss.iter().take(12).cloned().collect();
    let epm = read_fen("r3k2r/pp3ppp/8/3pP3/8/8/PPP2PPP/R3K2R w KQkq d6 0 1").expect("ep counters fen");
    roots.push(epm);
    roots.push(mirror_colours(&epm));
    for p in roots.iter() {
        for &h in &clocks {
            for &n in &[1u32, 2, 255, 256, 257, 32767, 32768, 65534, 65535] {
                let mut q = *p;
                q.hmc = h;
                q.fmn = n;
                v.push(q);
            }
        }
    }
    v
}

/// All positions reachable in <= depth plies from the seeds (model-driven BFS, dedup on the full
/// position including counters). Returns the states with their depth.
pub fn reach(seeds: &[Pos], depth: u32, max_states: usize) -> (Vec<(Pos, u32)>, bool) {
    let mut seen: HashSet<Pos> = HashSet::new();
    let mut all: Vec<(Pos, u32)> = Vec::new();
    let mut frontier: Vec<Pos> = Vec::new();
    for s in seeds {
        if seen.insert(*s) {
            frontier.push(*s);
            all.push((*s, 0));
        }
    }
    let mut capped = false;
    for d in 1..=depth {
        let mut next = Vec::new();
        'outer: for p in &frontier {
            for m in p.legal() {
                let n = p.apply(m);
                if seen.insert(n) {
                    next.push(n);
                    all.push((n, d));
                    if all.len() >= max_states {
                        capped = true;
                        break 'outer;
                    }
                }
            }
        }
        frontier = next;
        if capped {
            break;
        }
    }
    (all, capped)
}

/// LONG: deterministic deep lines. From a seed, at ply i the side to move plays the
/// ((a*i + b) mod n)-th of its n legal moves in model order; the line stops after `max` plies or
/// when there is no legal move. Branching 1: these are single deep executions (hundreds of plies),
/// not an exhaustive exploration at that depth; they complement the breadth-first universes, whose
/// depth is small, with long histories (large clocks, long undo stacks, many recorded positions).
pub const LONG_RULES: [(usize, usize); 6] = [(0, 0), (7, 3), (13, 5), (1, 0), (5, 11), (31, 17)];

pub fn long_line(start: &Pos, a: usize, b: usize, max: usize) -> Vec<Mv> {
    let mut v = Vec::new();
    let mut p = *start;
    for i in 0..max {
        let l = p.legal();
        if l.is_empty() {
            break;
        }
        let m = l[(a * i + b) % l.len()];
        v.push(m);
        p = p.apply(m);
    }
    v
}

/// (seed index, a, b) of all LONG lines of a tier
pub fn long_params(thorough: bool) -> Vec<(usize, usize, usize)> {
    let rules = if thorough { &LONG_RULES[..] } else { &LONG_RULES[..3] };
    let mut v = Vec::new();
    for s in 0..seeds().len() {
        for &(a, b) in rules {
            v.push((s, a, b));
        }
    }
    v
}

pub fn long_max(thorough: bool) -> usize {
    if thorough {
        1000
    } else {
        300
    }
}

// ---------------------------------------------------------------------------------------------
// KING ZONE families with six men: MULTICHECK, CHECKPIN; CASTLE2 / PAWNROW

/// (square, kind) of every enemy man that attacks `k` on an otherwise empty board, taken from:
/// knights on the knight squares, pawns on the two pawn squares, rooks on the orthogonal and
/// bishops on the diagonal rays at distance 1..=maxd, queens on all rays at distance 2
pub fn attack_options(k: usize, own: u8, maxd: i32) -> Vec<(usize, u8)> {
    let (kf, kr) = (file_of(k), rank_of(k));
    let on = |f: i32, r: i32| (0..8).contains(&f) && (0..8).contains(&r);
    let mut v = Vec::new();
    for (df, dr) in [(1, 2), (2, 1), (2, -1), (1, -2), (-1, -2), (-2, -1), (-2, 1), (-1, 2)] {
        if on(kf + df, kr + dr) {
            v.push((sq(kf + df, kr + dr), N));
        }
    }
    // an enemy pawn attacks towards the own side's home rank
    let pr = if own == 0 { kr + 1 } else { kr - 1 };
    for df in [-1, 1] {
        if on(kf + df, pr) && pr != 0 && pr != 7 {
            v.push((sq(kf + df, pr), P));
        }
    }
    for (df, dr) in [(1, 0), (-1, 0), (0, 1), (0, -1), (1, 1), (1, -1), (-1, 1), (-1, -1)] {
        for d in 1..=maxd {
            let (f, r) = (kf + df * d, kr + dr * d);
            if !on(f, r) {
                break;
            }
            v.push((sq(f, r), if df == 0 || dr == 0 { R } else { B }));
            if d == 2 {
                v.push((sq(f, r), Q));
            }
        }
    }
    v
}

/// enemy-king squares far from `k` (Chebyshev distance >= 4), in a fixed order
fn far_kings(k: usize, n: usize) -> Vec<usize> {
    let mut v = Vec::new();
    for &c in &[63usize, 0, 7, 56, 60, 4, 31, 32] {
        let d = (file_of(c) - file_of(k)).abs().max((rank_of(c) - rank_of(k)).abs());
        if d >= 4 && v.len() < n {
            v.push(c);
        }
    }
    v
}

/// shard = own king square * 2 + side to move
pub const KZONE_SHARDS: usize = 128;
/// each KZONE shard is split into this many parts
pub const KZONE_PARTS: usize = 16;

/// MULTICHECK: the king of the side to move attacked by THREE enemy men at once (every triple of
/// `attack_options`; such positions cannot arise in play but are valid), alone or with one own
/// defender of each given kind on every square; enemy king on `neks` far squares.
pub fn multicheck(shard: usize, part: usize, maxd: i32, defenders: &[u8], neks: usize, f: Sink) {
    let ok = shard / 2;
    let own = (shard % 2) as u8;
    let opp = 1 - own;
    let opts = attack_options(ok, own, maxd);
    let eks = far_kings(ok, neks);
    // part = index of the first attacker option (KZONE_PARTS parts cover every index)
    for i in 0..opts.len() {
        if i % KZONE_PARTS != part {
            continue;
        }
        for j in (i + 1)..opts.len() {
            if opts[j].0 == opts[i].0 {
                continue;
            }
            for k in (j + 1)..opts.len() {
                if opts[k].0 == opts[i].0 || opts[k].0 == opts[j].0 {
                    continue;
                }
                let mut p = Pos::empty();
                p.stm = own;
                p.b[ok] = mk(own, K);
                for &(s, kd) in &[opts[i], opts[j], opts[k]] {
                    p.b[s] = mk(opp, kd);
                }
                for &ek in &eks {
                    if p.b[ek] != EMPTY {
                        continue;
                    }
                    let mut q = p;
                    q.b[ek] = mk(opp, K);
                    if !is_valid_normal(&q) {
                        continue;
                    }
                    f(&q);
                    for &d in defenders {
                        for x in 0..64 {
                            if q.b[x] != EMPTY || (d == P && (rank_of(x) == 0 || rank_of(x) == 7)) {
                                continue;
                            }
                            let mut r = q;
                            r.b[x] = mk(own, d);
                            emit_if_valid(&r, f);
                        }
                    }
                }
            }
        }
    }
}

/// CHECKPIN: the king of the side to move is attacked by one enemy man X (every attack option at
/// distance <= 2), a second enemy slider Y stands on a king ray at distance 2..=3 with an own man
/// B between it and the king (pinned, or shielding), and a free own man A of B's kind (a knight
/// when B is a pawn) stands on every square: check evasions next to a pinned look-alike.
pub fn checkpin(shard: usize, part: usize, neks: usize, f: Sink) {
    let ok = shard / 2;
    let own = (shard % 2) as u8;
    let opp = 1 - own;
    let (kf, kr) = (file_of(ok), rank_of(ok));
    let on = |f: i32, r: i32| (0..8).contains(&f) && (0..8).contains(&r);
    let xs = attack_options(ok, own, 2);
    let eks = far_kings(ok, neks);
    for (df, dr) in [(1, 0), (-1, 0), (0, 1), (0, -1), (1, 1), (1, -1), (-1, 1), (-1, -1)] {
        for dy in 2..=3 {
            if !on(kf + df * dy, kr + dr * dy) {
                continue;
            }
            let ysq = sq(kf + df * dy, kr + dr * dy);
            for &yk in &[if df == 0 || dr == 0 { R } else { B }, Q] {
                for bd in 1..dy {
                    let bsq = sq(kf + df * bd, kr + dr * bd);
                    for &bk in &[N, B, R, Q, P] {
                        if bk == P && (rank_of(bsq) == 0 || rank_of(bsq) == 7) {
                            continue;
                        }
                        for (xi, &(xsq, xk)) in xs.iter().enumerate() {
                            if xsq == ysq || xsq == bsq || xi % KZONE_PARTS != part {
                                continue;
                            }
                            let mut p = Pos::empty();
                            p.stm = own;
                            p.b[ok] = mk(own, K);
                            p.b[ysq] = mk(opp, yk);
                            p.b[bsq] = mk(own, bk);
                            p.b[xsq] = mk(opp, xk);
                            for &ek in &eks {
                                if p.b[ek] != EMPTY {
                                    continue;
                                }
                                let mut q = p;
                                q.b[ek] = mk(opp, K);
                                if !is_valid_normal(&q) {
                                    continue;
                                }
                                f(&q);
                                let ak = if bk == P { N } else { bk };
                                for a in 0..64 {
                                    if q.b[a] != EMPTY {
                                        continue;
                                    }
                                    let mut r = q;
                                    r.b[a] = mk(own, ak);
                                    emit_if_valid(&r, f);
                                }
                            }
                        }
                    }
                }
            }
        }
    }
}

/// shard = index of the first enemy man option (mod 64) * 2 + side
pub const CASTLE2_SHARDS: usize = 128;

/// CASTLE2: king and rook(s) at home with every subset of rights, and every PAIR of enemy men
/// (P, N, B, R, Q) on the three ranks nearest the home rank: the squares the king leaves, crosses
/// and reaches attacked once, twice, or by two men of one kind from both sides.
pub fn castle2(shard: usize, f: Sink) {
    let own = (shard % 2) as u8;
    let part = shard / 2;
    let opp = 1 - own;
    let hr = if own == 0 { 0 } else { 7 };
    let far = 7 - hr;
    let near = |s: usize| (rank_of(s) - hr).abs() <= 2;
    let mut opts: Vec<(usize, u8)> = Vec::new();
    for s in 0..64 {
        if !near(s) {
            continue;
        }
        for &kd in &[P, N, B, R, Q] {
            if kd == P && rank_of(s) == hr {
                continue;
            }
            opts.push((s, kd));
        }
    }
    for rooks in 1..4u8 {
        let mut base = Pos::empty();
        base.stm = own;
        base.b[sq(4, hr)] = mk(own, K);
        if rooks & 1 != 0 {
            base.b[sq(0, hr)] = mk(own, R);
        }
        if rooks & 2 != 0 {
            base.b[sq(7, hr)] = mk(own, R);
        }
        for &ek in &[sq(6, far), sq(1, far)] {
            let mut p = base;
            p.b[ek] = mk(opp, K);
            for i in 0..opts.len() {
                if i % 64 != part || p.b[opts[i].0] != EMPTY {
                    continue;
                }
                for j in (i + 1)..opts.len() {
                    if opts[j].0 == opts[i].0 || p.b[opts[j].0] != EMPTY {
                        continue;
                    }
                    let mut q = p;
                    q.b[opts[i].0] = mk(opp, opts[i].1);
                    q.b[opts[j].0] = mk(opp, opts[j].1);
                    expand_variants(&q, f);
                }
            }
        }
    }
}

/// PAWNROW: king and rook(s) at home with every subset of rights, and every subset of enemy
/// pawns on the rank in front of the home rank (256 subsets, up to eight pawns)
pub fn pawnrow(own: u8, f: Sink) {
    let opp = 1 - own;
    let hr = if own == 0 { 0 } else { 7 };
    let pr = if own == 0 { 1 } else { 6 };
    let far = 7 - hr;
    for rooks in 1..4u8 {
        for &ek in &[sq(6, far), sq(1, far)] {
            for mask in 0..256u32 {
                let mut p = Pos::empty();
                p.stm = own;
                p.b[sq(4, hr)] = mk(own, K);
                if rooks & 1 != 0 {
                    p.b[sq(0, hr)] = mk(own, R);
                }
                if rooks & 2 != 0 {
                    p.b[sq(7, hr)] = mk(own, R);
                }
                p.b[ek] = mk(opp, K);
                for fl in 0..8 {
                    if mask >> fl & 1 != 0 {
                        p.b[sq(fl, pr)] = mk(opp, P);
                    }
                }
                expand_variants(&p, f);
            }
        }
    }
}

// ---------------------------------------------------------------------------------------------
// COUNTS: many men of one kind per side

/// Kings on e1 / e8 (and on a1 / h8), n white men of kind kw filling the board from a2 upwards, m
/// black men of kind kb from h7 downwards, for every pair of kinds {P, N, B, R, Q}, n, m in
/// 0..=15, both sides to move: more than eight pawns, many promoted pieces, sixteen men a side.
pub const COUNTS_SHARDS: usize = 25;

/// shard = white kind index * 5 + black kind index
pub fn counts(shard: usize, f: Sink) {
    let kinds = [P, N, B, R, Q];
    for &(wk, bk) in &[(4usize, 60usize), (0, 63)] {
        for &kw in &kinds[shard / 5..shard / 5 + 1] {
            for &kb in &kinds[shard % 5..shard % 5 + 1] {
                for n in 0..=15usize {
                    for m in 0..=15usize {
                        for stm in 0..2u8 {
                            let mut p = Pos::empty();
                            p.stm = stm;
                            p.b[wk] = K;
                            p.b[bk] = K | BLACK;
                            for i in 0..n {
                                p.b[8 + i] = kw;
                            }
                            for i in 0..m {
                                p.b[55 - i] = mk(1, kb);
                            }
                            emit_if_valid(&p, f);
                        }
                    }
                }
            }
        }
    }
}

/// CASTLE3: BOTH sides with king and rook(s) at home (every pair of rook subsets, every consistent
/// rights set) and one further man of any kind and colour on every square: castling next to an
/// opponent who still holds his rights (a third rook, a queen on the back rank, ...)
pub const CASTLE3_SHARDS: usize = 18;

/// shard = side to move * 9 + (white rooks - 1) * 3 + (black rooks - 1)
pub fn castle3(shard: usize, f: Sink) {
    let own = (shard / 9) as u8;
    for wr in [(shard % 9 / 3 + 1) as u8] {
        for br in [(shard % 3 + 1) as u8] {
            let mut base = Pos::empty();
            base.stm = own;
            base.b[sq(4, 0)] = K;
            base.b[sq(4, 7)] = mk(1, K);
            if wr & 1 != 0 {
                base.b[sq(0, 0)] = R;
            }
            if wr & 2 != 0 {
                base.b[sq(7, 0)] = R;
            }
            if br & 1 != 0 {
                base.b[sq(0, 7)] = mk(1, R);
            }
            if br & 2 != 0 {
                base.b[sq(7, 7)] = mk(1, R);
            }
            expand_variants(&base, f);
            for x in 0..64 {
                if base.b[x] != EMPTY {
                    continue;
                }
                for col in 0..2u8 {
                    for &kd in &[P, N, B, R, Q] {
                        if kd == P && (rank_of(x) == 0 || rank_of(x) == 7) {
                            continue;
                        }
                        let mut p = base;
                        p.b[x] = mk(col, kd);
                        expand_variants(&p, f);
                    }
                }
            }
        }
    }
}

/// shard = corner (0..4) * 2 + side to move
pub const BOXK_SHARDS: usize = 8;

/// BOXK: the king of the side to move in a corner, the enemy king a knight's jump away (taking
/// the flight squares), one enemy man X attacking the king (every attack option up to distance 7),
/// one own man A of any kind on every square, and nothing else or an own pawn B on its seventh
/// rank with an enemy knight or rook Z diagonally in front of it: positions with no or exactly
/// one legal move, of every move class, next to pseudo-legal moves of the other classes.
pub fn boxk(shard: usize, part: usize, f: Sink) {
    let corner = [0usize, 7, 56, 63][shard / 2];
    let own = (shard % 2) as u8;
    let opp = 1 - own;
    let (cf, cr) = (file_of(corner), rank_of(corner));
    let sf = if cf == 0 { 1 } else { -1 };
    let sr = if cr == 0 { 1 } else { -1 };
    let r7 = if own == 0 { 6 } else { 1 };
    let r8 = if own == 0 { 7 } else { 0 };
    let xs = attack_options(corner, own, 7);
    for ek in [sq(cf + 2 * sf, cr + sr), sq(cf + sf, cr + 2 * sr)] {
        for (xi, &(xsq, xk)) in xs.iter().enumerate() {
            if xi % KZONE_PARTS != part || xsq == ek {
                continue;
            }
            let mut base = Pos::empty();
            base.stm = own;
            base.b[corner] = mk(own, K);
            base.b[ek] = mk(opp, K);
            base.b[xsq] = mk(opp, xk);
            if !is_valid_normal(&base) {
                continue;
            }
            for a in 0..64 {
                if base.b[a] != EMPTY {
                    continue;
                }
                for &ak in &[P, N, B, R, Q] {
                    if ak == P && (rank_of(a) == 0 || rank_of(a) == 7) {
                        continue;
                    }
                    let mut p = base;
                    p.b[a] = mk(own, ak);
                    if !is_valid_normal(&p) {
                        continue;
                    }
                    f(&p);
                    for bf in 0..8 {
                        let bsq = sq(bf, r7);
                        if p.b[bsq] != EMPTY {
                            continue;
                        }
                        for df in [-1, 1] {
                            if !(0..8).contains(&(bf + df)) {
                                continue;
                            }
                            let zsq = sq(bf + df, r8);
                            if p.b[zsq] != EMPTY {
                                continue;
                            }
                            for &zk in &[N, R] {
                                let mut q = p;
                                q.b[bsq] = mk(own, P);
                                q.b[zsq] = mk(opp, zk);
                                emit_if_valid(&q, f);
                            }
                        }
                    }
                }
            }
        }
    }
}

// ---------------------------------------------------------------------------------------------
// PROMOROW, BACKRANK

/// shard = side to move
/// PROMOROW: every subset of own pawns on the seventh rank against every subset of enemy knights
/// on the eighth (256 x 256), own king on its first rank, enemy king on its own third rank: up
/// to fourteen capture-promotions (x 4 pieces) and eight push-promotions in one position.
pub fn promorow(own: u8, part: usize, f: Sink) {
    let opp = 1 - own;
    let r7 = if own == 0 { 6 } else { 1 };
    let r8 = if own == 0 { 7 } else { 0 };
    let r1 = 7 - r8;
    let r6 = if own == 0 { 5 } else { 2 };
    for pm in 0..256u32 {
        if pm as usize % 16 != part {
            continue;
        }
        for nm in 0..256u32 {
            let mut p = Pos::empty();
            p.stm = own;
            for fl in 0..8 {
                if pm >> fl & 1 != 0 {
                    p.b[sq(fl, r7)] = mk(own, P);
                }
                if nm >> fl & 1 != 0 {
                    p.b[sq(fl, r8)] = mk(opp, N);
                }
            }
            p.b[sq(0, r1)] = mk(own, K);
            p.b[sq(7, r6)] = mk(opp, K);
            emit_if_valid(&p, f);
        }
    }
}

/// BACKRANK as raw boards: side S with all eight, all but one (each file) or none of its pawns
/// on their home rank; on S's back rank its king on every square, the enemy king on every other
/// back-rank square or far away, and every assignment of {empty, R, Q} to the six remaining
/// squares; both sides to move. Valid and invalid boards (a king in check behind a pawn wall).
pub const BACKRANK_SHARDS: usize = 16;

/// shard = side * 8 + own king file
pub fn backrank(shard: usize, f_raw: &mut dyn FnMut(&RawPos)) {
    let s = (shard / 8) as u8;
    let only_ok = shard % 8;
    let hr = if s == 0 { 0 } else { 7 };
    let pr = if s == 0 { 1 } else { 6 };
    let far = sq(4, 7 - hr);
    let mut pawnsets: Vec<u32> = vec![0xff, 0];
    for fl in 0..8 {
        pawnsets.push(0xff & !(1 << fl));
    }
    for &ps in &pawnsets {
        for ok in only_ok..only_ok + 1 {
            for eko in 0..9 {
                if eko == ok {
                    continue;
                }
                let rest: Vec<i32> = (0..8usize).filter(|&x| x != ok && x != eko).map(|x| x as i32).collect();
                for code in 0..3usize.pow(rest.len() as u32) {
                    let mut b = [EMPTY; 64];
                    for fl in 0..8 {
                        if ps >> fl & 1 != 0 {
                            b[sq(fl, pr)] = mk(s, P);
                        }
                    }
                    b[sq(ok as i32, hr)] = mk(s, K);
                    if eko < 8 {
                        b[sq(eko as i32, hr)] = mk(1 - s, K);
                    } else {
                        b[far] = mk(1 - s, K);
                    }
                    let mut x = code;
                    for &fl in &rest {
                        match x % 3 {
                            1 => b[sq(fl, hr)] = mk(s, R),
                            2 => b[sq(fl, hr)] = mk(s, Q),
                            _ => {}
                        }
                        x /= 3;
                    }
                    for stm in 0..2u8 {
                        f_raw(&RawPos { b, stm, cr: [false; 4], eps: None, hmc: 0, fmn: 1 });
                    }
                }
            }
        }
    }
}

// ---------------------------------------------------------------------------------------------
// CAPRET: capture-and-return lines

/// For square `x`: a black knight on x, a white rook next to it, kings far from both.
/// The line: the rook takes on x, Black's king steps aside, the rook returns, the king
/// returns, then both kings step aside and back twice more. After ply 4 the position equals the
/// start except for the man on x; from then on it recurs. 64 lines, one per square.
pub fn capture_return_line(x: usize) -> Option<(Pos, Vec<Mv>)> {
    let (xf, xr) = (file_of(x), rank_of(x));
    let on = |f: i32, r: i32| (0..8).contains(&f) && (0..8).contains(&r);
    // the capturer is a rook next to x (king and rook against king is not a dead position)
    let (yf, yr) = [(1, 0), (-1, 0), (0, 1), (0, -1)].iter().map(|(a, b)| (xf + a, xr + b)).find(|(f, r)| on(*f, *r))?;
    let y = sq(yf, yr);
    let dist = |a: usize, b: usize| (file_of(a) - file_of(b)).abs().max((rank_of(a) - rank_of(b)).abs());
    // kings: the first pair of squares (from a fixed list) far from x, y and each other
    let cands = [sq(7, 0), sq(0, 7), sq(0, 0), sq(7, 7), sq(4, 0), sq(4, 7), sq(7, 3), sq(0, 4)];
    for &wk in &cands {
        for &bk in &cands {
            if wk == bk || dist(wk, bk) < 3 || dist(wk, x) < 3 || dist(bk, x) < 3 || dist(wk, y) < 3 || dist(bk, y) < 3 {
                continue;
            }
            let mut p = Pos::empty();
            p.b[x] = mk(1, N);
            p.b[y] = R;
            p.b[wk] = K;
            p.b[bk] = mk(1, K);
            if !is_valid_normal(&p) {
                continue;
            }
            let step = |k: usize| if file_of(k) < 7 { k + 1 } else { k - 1 };
            let (wk2, bk2) = (step(wk), step(bk));
            let texts = [(y, x), (bk, bk2), (x, y), (bk2, bk), (wk, wk2), (bk, bk2), (wk2, wk), (bk2, bk), (wk, wk2), (bk, bk2), (wk2, wk), (bk2, bk)];
            let mut q = p;
            let mut line = Vec::new();
            let mut ok = true;
            for (f, t) in texts {
                match q.legal().into_iter().find(|m| m.from as usize == f && m.to as usize == t) {
                    Some(m) => {
                        line.push(m);
                        q = q.apply(m);
                    }
                    None => {
                        ok = false;
                        break;
                    }
                }
            }
            if ok {
                return Some((p, line));
            }
        }
    }
    None
}

// ---------------------------------------------------------------------------------------------
// PAWNWALL, CASTLEFILE

/// shard = side * 5 + kind index of the first extra man
pub const PAWNWALL_SHARDS: usize = 10;

/// PAWNWALL: side S with all eight pawns at home and its king on e1 / e8, plus exactly two
/// further men of S of every pair of kinds {N, B, R, Q, P} on every pair of free squares (two
/// bishops on one colour, three "rooks", a ninth pawn ...), enemy king on two far squares, both
/// sides to move: boards whose pawn structure looks untouched but whose pieces do not.
pub fn pawnwall(shard: usize, f: Sink) {
    let s = (shard / 5) as u8;
    let kinds = [N, B, R, Q, P];
    let k1 = kinds[shard % 5];
    let hr = if s == 0 { 0 } else { 7 };
    let pr = if s == 0 { 1 } else { 6 };
    let mut base = Pos::empty();
    for fl in 0..8 {
        base.b[sq(fl, pr)] = mk(s, P);
    }
    base.b[sq(4, hr)] = mk(s, K);
    for &ek in &[sq(3, if s == 0 { 4 } else { 3 }), sq(7, 7 - hr)] {
        let mut b0 = base;
        b0.b[ek] = mk(1 - s, K);
        for x in 0..64 {
            if b0.b[x] != EMPTY || (k1 == P && (rank_of(x) == 0 || rank_of(x) == 7)) {
                continue;
            }
            for &k2 in &kinds {
                for y in (x + 1)..64 {
                    if b0.b[y] != EMPTY || (k2 == P && (rank_of(y) == 0 || rank_of(y) == 7)) {
                        continue;
                    }
                    for stm in 0..2u8 {
                        let mut p = b0;
                        p.stm = stm;
                        p.b[x] = mk(s, k1);
                        p.b[y] = mk(s, k2);
                        emit_if_valid(&p, f);
                    }
                }
            }
        }
    }
}

/// shard = side * 5 + file index (c, d, e, f, g)
pub const CASTLEFILE_SHARDS: usize = 10;

/// CASTLEFILE: king and rook(s) at home with every consistent rights set; on one of the files
/// c..g every assignment of {empty, own pawn, enemy pawn, enemy rook} to the seven squares above
/// the home rank (4^7): the squares the king leaves, crosses and reaches attacked along a file
/// that is open, half-open or closed by pawns of either colour in every order.
pub fn castlefile(shard: usize, f: Sink) {
    let own = (shard / 5) as u8;
    let file = (shard % 5 + 2) as i32;
    let opp = 1 - own;
    let hr = if own == 0 { 0 } else { 7 };
    let dir = if own == 0 { 1 } else { -1 };
    let alph = [EMPTY, mk(own, P), mk(opp, P), mk(opp, R)];
    for rooks in 1..4u8 {
        let mut base = Pos::empty();
        base.stm = own;
        base.b[sq(4, hr)] = mk(own, K);
        if rooks & 1 != 0 {
            base.b[sq(0, hr)] = mk(own, R);
        }
        if rooks & 2 != 0 {
            base.b[sq(7, hr)] = mk(own, R);
        }
        // enemy king in the far corner away from the file
        base.b[sq(if file <= 4 { 7 } else { 0 }, 7 - hr)] = mk(opp, K);
        for code in 0..4usize.pow(7) {
            let mut p = base;
            let mut x = code;
            let mut ok = true;
            for i in 1..8 {
                let c = alph[x % 4];
                x /= 4;
                let s = sq(file, hr + dir * i);
                if c != EMPTY && kind(c) == P && i == 7 {
                    ok = false; // no pawn on the last rank
                    break;
                }
                if c != EMPTY && p.b[s] != EMPTY {
                    ok = false;
                    break;
                }
                if c != EMPTY {
                    p.b[s] = c;
                }
            }
            if ok {
                expand_variants(&p, f);
            }
        }
    }
}

// ---------------------------------------------------------------------------------------------
// HEMMED: an enemy slider whose neighbours are all its own men (it cannot move, but it protects)

/// shard = slider square
pub const HEMMED_SHARDS: usize = 64;

/// Enemy slider X in {R, B, Q} on the shard square; the neighbours in its move directions that
/// exist on the board (4 for R and B, 8 for Q) all hold enemy men: each a knight or a pawn, or
/// one of them the enemy king; the king of the side to move on every square from which it
/// attacks one of those neighbours; both colours. Captures of protected men by the king, next to
/// a protector that has no move of its own.
pub fn hemmed(shard: usize, f: Sink) {
    let x = shard;
    let (xf, xr) = (file_of(x), rank_of(x));
    let on = |f: i32, r: i32| (0..8).contains(&f) && (0..8).contains(&r);
    for own in 0..2u8 {
        let opp = 1 - own;
        for &xk in &[R, B, Q] {
            let dirs: Vec<(i32, i32)> = match xk {
                R => vec![(1, 0), (-1, 0), (0, 1), (0, -1)],
                B => vec![(1, 1), (1, -1), (-1, 1), (-1, -1)],
                _ => vec![(1, 0), (-1, 0), (0, 1), (0, -1), (1, 1), (1, -1), (-1, 1), (-1, -1)],
            };
            let nb: Vec<usize> = dirs.iter().filter(|(a, b)| on(xf + a, xr + b)).map(|(a, b)| sq(xf + a, xr + b)).collect();
            if nb.len() < 2 {
                continue;
            }
            let n = nb.len();
            // each neighbour: 0 = knight, 1 = pawn; king position: none (index n) or one of them
            for kpos in 0..=n {
                for code in 0..(1usize << n) {
                    let mut p = Pos::empty();
                    p.stm = own;
                    p.b[x] = mk(opp, xk);
                    let mut ok = true;
                    for (i, &s) in nb.iter().enumerate() {
                        if i == kpos {
                            p.b[s] = mk(opp, K);
                        } else if code >> i & 1 == 0 {
                            p.b[s] = mk(opp, N);
                        } else if rank_of(s) == 0 || rank_of(s) == 7 {
                            ok = false;
                        } else {
                            p.b[s] = mk(opp, P);
                        }
                    }
                    // the bit of the king's slot is unused: take each king case once
                    if !ok || (kpos < n && code >> kpos & 1 != 0) {
                        continue;
                    }
                    if kpos == n {
                        // enemy king far away: first free corner
                        match [0usize, 7, 56, 63].iter().find(|&&c| p.b[c] == EMPTY && (file_of(c) - xf).abs().max((rank_of(c) - xr).abs()) >= 3) {
                            Some(&c) => p.b[c] = mk(opp, K),
                            None => continue,
                        }
                    }
                    // own king next to any of the neighbours
                    let mut seen = [false; 64];
                    for &s in &nb {
                        for (a, b) in [(1, 0), (-1, 0), (0, 1), (0, -1), (1, 1), (1, -1), (-1, 1), (-1, -1)] {
                            if !on(file_of(s) + a, rank_of(s) + b) {
                                continue;
                            }
                            let k = sq(file_of(s) + a, rank_of(s) + b);
                            if p.b[k] != EMPTY || seen[k] {
                                continue;
                            }
                            seen[k] = true;
                            let mut q = p;
                            q.b[k] = mk(own, K);
                            emit_if_valid(&q, f);
                        }
                    }
                }
            }
        }
    }
}

// ---------------------------------------------------------------------------------------------
// ALIGNED, DISCOVER

/// ALIGNED as raw boards: a king on one of four inner squares; in each of the eight directions
/// nothing, an enemy slider at distance 2 (bishop on diagonals, rook on lines; second variant:
/// queens everywhere), or that slider with an enemy knight on the square between (blocked): 3^8
/// arrangements x 3 slider variants x 4 king squares x 2 sides to move; the other king far away.
/// Up to eight sliders aligned with the king, any number of them blocked; valid and invalid boards.
pub fn aligned(shard: usize, f_raw: &mut dyn FnMut(&RawPos)) {
    let ksq = [sq(2, 2), sq(4, 3), sq(3, 5), sq(5, 4)][shard % 4];
    // slider variant: 0 = bishops on diagonals, rooks on lines; 1 = queens everywhere; 2 = like 0,
    // but an unblocked line carries a BISHOP at distance 2 with a rook behind it at distance 3 (a
    // man that does not attack along the line, screening one that would)
    let variant = shard / 4 % 3;
    let queens = variant == 1;
    let kcol = (shard / 12 % 2) as u8;
    let opp = 1 - kcol;
    let dirs = [(1, 0), (-1, 0), (0, 1), (0, -1), (1, 1), (1, -1), (-1, 1), (-1, -1)];
    let far = [0usize, 7, 56, 63].into_iter().find(|&c| (file_of(c) - file_of(ksq)).abs().max((rank_of(c) - rank_of(ksq)).abs()) >= 4).unwrap_or(63);
    for code in 0..3usize.pow(8) {
        let mut b = [EMPTY; 64];
        b[ksq] = mk(kcol, K);
        b[far] = mk(opp, K);
        let mut x = code;
        let mut ok = true;
        for (df, dr) in dirs {
            let o = x % 3;
            x /= 3;
            if o == 0 {
                continue;
            }
            let s1 = sq(file_of(ksq) + df, rank_of(ksq) + dr);
            let s2 = sq(file_of(ksq) + 2 * df, rank_of(ksq) + 2 * dr);
            if b[s1] != EMPTY || b[s2] != EMPTY {
                ok = false;
                break;
            }
            let sl = if queens { Q } else if df == 0 || dr == 0 { R } else { B };
            b[s2] = mk(opp, sl);
            if o == 2 {
                b[s1] = mk(opp, N);
            } else if variant == 2 && (df == 0 || dr == 0) {
                let (f3, r3) = (file_of(ksq) + 3 * df, rank_of(ksq) + 3 * dr);
                if (0..8).contains(&f3) && (0..8).contains(&r3) && b[sq(f3, r3)] == EMPTY {
                    b[s2] = mk(opp, B);
                    b[sq(f3, r3)] = mk(opp, R);
                }
            }
        }
        if !ok {
            continue;
        }
        for stm in 0..2u8 {
            f_raw(&RawPos { b, stm, cr: [false; 4], eps: None, hmc: 0, fmn: 1 });
        }
    }
}
pub const ALIGNED_SHARDS: usize = 24;

/// DISCOVER roots: an own pawn on its home square whose departure opens a line from an own slider
/// to the enemy king (the pawn is the only man between them, on a rank or a diagonal through its
/// square), an enemy pawn that could take en passant, own king far away. The first move of the
/// history is the pawn's single or double step (a discovered check, with an en-passant mark).
pub fn discover(own: u8, f: Sink) {
    let opp = 1 - own;
    let r2 = if own == 0 { 1 } else { 6 };
    let r4 = if own == 0 { 3 } else { 4 };
    let on = |f: i32, r: i32| (0..8).contains(&f) && (0..8).contains(&r);
    for pf in 0..8 {
        let psq = sq(pf, r2);
        for (df, dr) in [(1, 0), (1, 1), (1, -1)] {
            for sign in [1, -1] {
                let (df, dr) = (df * sign, dr * sign);
                // slider on one side, enemy king on the other
                for ds in 1..=3 {
                    for dk in 1..=3 {
                        let (sf, sr) = (pf - df * ds, r2 - dr * ds);
                        let (kf, kr) = (pf + df * dk, r2 + dr * dk);
                        if !on(sf, sr) || !on(kf, kr) {
                            continue;
                        }
                        for &sk in &[if dr == 0 { R } else { B }, Q] {
                            for ep_side in [-1, 1] {
                                if !on(pf + ep_side, r4) {
                                    continue;
                                }
                                let mut p = Pos::empty();
                                p.stm = own;
                                p.b[psq] = mk(own, P);
                                p.b[sq(sf, sr)] = mk(own, sk);
                                p.b[sq(kf, kr)] = mk(opp, K);
                                let e = sq(pf + ep_side, r4);
                                if p.b[e] != EMPTY {
                                    continue;
                                }
                                p.b[e] = mk(opp, P);
                                // own king: first free corner far from the enemy king
                                let Some(&c) = [0usize, 7, 56, 63].iter().find(|&&c| p.b[c] == EMPTY && (file_of(c) - kf).abs().max((rank_of(c) - kr).abs()) >= 2) else { continue };
                                p.b[c] = mk(own, K);
                                emit_if_valid(&p, f);
                            }
                        }
                    }
                }
            }
        }
    }
}

// ---------------------------------------------------------------------------------------------
// EP2: an en-passant capture next to a second own pawn with an enemy man behind it

/// For both colours: capturer pawn on the fifth rank (own view) on file cf, enemy pawn beside it
/// on file cf +- 1 with the en-passant mark; a second own pawn on the SIXTH rank on every other
/// file with an enemy man {P, N, R} directly behind it (on the fifth rank), or an own pawn on the
/// fifth rank with the enemy man on the fourth; own king on the 8 spread squares, enemy king on
/// two squares. Six men around one en-passant capture.
pub fn ep2(own: u8, f: Sink) {
    let opp = 1 - own;
    let (r4, r5, r6) = if own == 0 { (3, 4, 5) } else { (4, 3, 2) };
    let far = if own == 0 { 7 } else { 0 };
    for cf in 0..8 {
        for dv in [-1, 1] {
            let vf = cf + dv;
            if !(0..8).contains(&vf) {
                continue;
            }
            for sf in 0..8 {
                if sf == cf || sf == vf {
                    continue;
                }
                for (pr, mr) in [(r6, r5), (r5, r4)] {
                    for &mk_kind in &[P, N, R] {
                        let mut p = Pos::empty();
                        p.stm = own;
                        p.b[sq(cf, r5)] = mk(own, P);
                        p.b[sq(vf, r5)] = mk(opp, P);
                        p.ep = Some(sq(vf, r6) as u8);
                        p.b[sq(sf, pr)] = mk(own, P);
                        p.b[sq(sf, mr)] = mk(opp, mk_kind);
                        for &ok in &SPREAD8 {
                            if p.b[ok] != EMPTY {
                                continue;
                            }
                            for &ek in &[sq(1, far), sq(6, far)] {
                                if p.b[ek] != EMPTY || ek == ok {
                                    continue;
                                }
                                let mut q = p;
                                q.b[ok] = mk(own, K);
                                q.b[ek] = mk(opp, K);
                                emit_if_valid(&q, f);
                            }
                        }
                    }
                }
            }
        }
    }
}

// ---------------------------------------------------------------------------------------------
// STUCK: a side whose only mobile man is one chosen man

/// shard = corner (0..4) * 2 + side to move
pub const STUCK_SHARDS: usize = 8;

/// The king of the side to move in a corner, stalemated by an enemy queen a knight's jump away
/// (not in check, no king move); every subset of six files carrying a pair of mutually blocked
/// pawns (own pawn on its fourth rank, enemy pawn in front of it); and ONE further own man of any
/// kind {P, N, B, R, Q} on every free square: positions with up to sixteen men in which every
/// legal move belongs to that one man (promotion pushes only, double steps only, a single
/// capture, nothing at all ...).
pub fn stuck(shard: usize, f: Sink) {
    let corner = [0usize, 7, 56, 63][shard / 2];
    let own = (shard % 2) as u8;
    let opp = 1 - own;
    let (cf, cr) = (file_of(corner), rank_of(corner));
    let sf = if cf == 0 { 1 } else { -1 };
    let sr = if cr == 0 { 1 } else { -1 };
    let qsq = sq(cf + 2 * sf, cr + sr);
    // blocked pawn pairs on the files furthest from the corner
    let files: Vec<i32> = (0..8).filter(|fl| (fl - cf).abs() >= 2).collect();
    let (r_own, r_opp) = if own == 0 { (3, 4) } else { (4, 3) };
    let ek = sq(if cf == 0 { 6 } else { 1 }, if cr == 0 { 7 } else { 0 });
    for mask in 0..(1usize << files.len()) {
        let mut base = Pos::empty();
        base.stm = own;
        base.b[corner] = mk(own, K);
        base.b[qsq] = mk(opp, Q);
        base.b[ek] = mk(opp, K);
        let mut ok = true;
        for (i, &fl) in files.iter().enumerate() {
            if mask >> i & 1 != 0 {
                let (a, b) = (sq(fl, r_own), sq(fl, r_opp));
                if base.b[a] != EMPTY || base.b[b] != EMPTY {
                    ok = false;
                    break;
                }
                base.b[a] = mk(own, P);
                base.b[b] = mk(opp, P);
            }
        }
        if !ok || !is_valid_normal(&base) {
            continue;
        }
        f(&base);
        for x in 0..64 {
            if base.b[x] != EMPTY {
                continue;
            }
            for &kd in &[P, N, B, R, Q] {
                if kd == P && (rank_of(x) == 0 || rank_of(x) == 7) {
                    continue;
                }
                let mut p = base;
                p.b[x] = mk(own, kd);
                emit_if_valid(&p, f);
            }
        }
    }
}
