//! Reference model of chess positions and moves ("refchess").
//!
//! Deliberately boring: mailbox board, squares a1 = 0 .. h8 = 63 (file = sq % 8, rank = sq / 8),
//! all geometry by (file, rank) integer arithmetic; no bitboards, no tables, no unsafe.
//! Written from the Laws of Chess, not from owlchess.

pub const EMPTY: u8 = 0;
pub const P: u8 = 1;
pub const N: u8 = 2;
pub const B: u8 = 3;
pub const R: u8 = 4;
pub const Q: u8 = 5;
pub const K: u8 = 6;
pub const BLACK: u8 = 8;

pub const WHITE_SIDE: u8 = 0;
pub const BLACK_SIDE: u8 = 1;

#[inline]
pub fn kind(c: u8) -> u8 {
    c & 7
}
/// colour of a non-empty cell: 0 white, 1 black
#[inline]
pub fn colour(c: u8) -> u8 {
    if c & BLACK != 0 {
        1
    } else {
        0
    }
}
#[inline]
pub fn mk(col: u8, k: u8) -> u8 {
    k | if col == 1 { BLACK } else { 0 }
}
#[inline]
pub fn sq(f: i32, r: i32) -> usize {
    (r * 8 + f) as usize
}
#[inline]
pub fn on(f: i32, r: i32) -> bool {
    (0..8).contains(&f) && (0..8).contains(&r)
}
#[inline]
pub fn file_of(s: usize) -> i32 {
    (s % 8) as i32
}
#[inline]
pub fn rank_of(s: usize) -> i32 {
    (s / 8) as i32
}

pub const ALL_CELLS: [u8; 12] = [
    P,
    N,
    B,
    R,
    Q,
    K,
    P | BLACK,
    N | BLACK,
    B | BLACK,
    R | BLACK,
    Q | BLACK,
    K | BLACK,
];
/// the ten non-king kinds
pub const MEN: [u8; 10] = [
    P,
    N,
    B,
    R,
    Q,
    P | BLACK,
    N | BLACK,
    B | BLACK,
    R | BLACK,
    Q | BLACK,
];

/// A chess position. `ep` is the en-passant *target* square (the square passed over), as in FEN.
#[derive(Clone, Copy, PartialEq, Eq, Debug, Hash)]
pub struct Pos {
    pub b: [u8; 64],
    pub stm: u8,       // 0 white, 1 black
    pub cr: [bool; 4], // K Q k q
    pub ep: Option<u8>,
    pub hmc: u32,
    pub fmn: u32,
}

/// flag: 0 normal, 1 double pawn step, 2 en passant, 3 castle king side, 4 castle queen side
#[derive(Clone, Copy, PartialEq, Eq, Debug, Hash, PartialOrd, Ord)]
pub struct Mv {
    pub from: u8,
    pub to: u8,
    pub promo: u8,
    pub flag: u8,
}

pub const KN: [(i32, i32); 8] = [
    (1, 2),
    (2, 1),
    (2, -1),
    (1, -2),
    (-1, -2),
    (-2, -1),
    (-2, 1),
    (-1, 2),
];
pub const KG: [(i32, i32); 8] = [
    (1, 0),
    (1, 1),
    (0, 1),
    (-1, 1),
    (-1, 0),
    (-1, -1),
    (0, -1),
    (1, -1),
];
pub const DIAG: [(i32, i32); 4] = [(1, 1), (-1, 1), (-1, -1), (1, -1)];
pub const ORTH: [(i32, i32); 4] = [(1, 0), (0, 1), (-1, 0), (0, -1)];

impl Pos {
    pub fn empty() -> Pos {
        Pos {
            b: [EMPTY; 64],
            stm: 0,
            cr: [false; 4],
            ep: None,
            hmc: 0,
            fmn: 1,
        }
    }

    pub fn king_sq(&self, col: u8) -> Option<usize> {
        (0..64).find(|&i| self.b[i] == mk(col, K))
    }

    /// Set (as a bit mask over model squares) of the men of colour `by` that attack square `s`,
    /// i.e. that could capture on `s` by a pseudo-legal non-en-passant capture if an enemy man
    /// stood there (the occupant of `s` itself is irrelevant).
    pub fn attackers(&self, s: usize, by: u8) -> u64 {
        let mut res = 0u64;
        let f = file_of(s);
        let r = rank_of(s);
        for (df, dr) in KN {
            let (x, y) = (f + df, r + dr);
            if on(x, y) && self.b[sq(x, y)] == mk(by, N) {
                res |= 1 << sq(x, y);
            }
        }
        for (df, dr) in KG {
            let (x, y) = (f + df, r + dr);
            if on(x, y) && self.b[sq(x, y)] == mk(by, K) {
                res |= 1 << sq(x, y);
            }
        }
        // pawns capture diagonally forward: a white pawn attacking s stands one rank below s
        let pr = if by == 0 { r - 1 } else { r + 1 };
        for df in [-1, 1] {
            let x = f + df;
            if on(x, pr) && self.b[sq(x, pr)] == mk(by, P) {
                res |= 1 << sq(x, pr);
            }
        }
        for (df, dr) in DIAG {
            let (mut x, mut y) = (f + df, r + dr);
            while on(x, y) {
                let c = self.b[sq(x, y)];
                if c != EMPTY {
                    if c == mk(by, B) || c == mk(by, Q) {
                        res |= 1 << sq(x, y);
                    }
                    break;
                }
                x += df;
                y += dr;
            }
        }
        for (df, dr) in ORTH {
            let (mut x, mut y) = (f + df, r + dr);
            while on(x, y) {
                let c = self.b[sq(x, y)];
                if c != EMPTY {
                    if c == mk(by, R) || c == mk(by, Q) {
                        res |= 1 << sq(x, y);
                    }
                    break;
                }
                x += df;
                y += dr;
            }
        }
        res
    }

    #[inline]
    pub fn attacked(&self, s: usize, by: u8) -> bool {
        self.attackers(s, by) != 0
    }

    pub fn in_check(&self, col: u8) -> bool {
        match self.king_sq(col) {
            Some(k) => self.attacked(k, 1 - col),
            None => false,
        }
    }

    /// Pseudo-legal moves: everything the rules allow except that the mover's king may be left
    /// attacked. Castling already requires: right present, king and rook at home, squares between
    /// empty, king not in check, king's transit square not attacked (the destination square is
    /// covered by the king-safety test like for any other move).
    pub fn pseudo(&self, out: &mut Vec<Mv>) {
        let us = self.stm;
        let them = 1 - us;
        for s in 0..64usize {
            let c = self.b[s];
            if c == EMPTY || colour(c) != us {
                continue;
            }
            let f = file_of(s);
            let r = rank_of(s);
            match kind(c) {
                P => {
                    let dir = if us == 0 { 1 } else { -1 };
                    let start = if us == 0 { 1 } else { 6 };
                    let last = if us == 0 { 7 } else { 0 };
                    let push = |to: usize, out: &mut Vec<Mv>, flag: u8| {
                        if rank_of(to) == last {
                            for p in [N, B, R, Q] {
                                out.push(Mv {
                                    from: s as u8,
                                    to: to as u8,
                                    promo: p,
                                    flag: 0,
                                });
                            }
                        } else {
                            out.push(Mv {
                                from: s as u8,
                                to: to as u8,
                                promo: 0,
                                flag,
                            });
                        }
                    };
                    let r1 = r + dir;
                    if !on(f, r1) {
                        continue; // pawn on a back rank (only in invalid boards)
                    }
                    if self.b[sq(f, r1)] == EMPTY {
                        push(sq(f, r1), out, 0);
                        if r == start {
                            let r2 = r + 2 * dir;
                            if self.b[sq(f, r2)] == EMPTY {
                                out.push(Mv {
                                    from: s as u8,
                                    to: sq(f, r2) as u8,
                                    promo: 0,
                                    flag: 1,
                                });
                            }
                        }
                    }
                    for df in [-1, 1] {
                        let x = f + df;
                        if !on(x, r1) {
                            continue;
                        }
                        let t = sq(x, r1);
                        let d = self.b[t];
                        if d != EMPTY && colour(d) == them {
                            push(t, out, 0);
                        } else if d == EMPTY && self.ep == Some(t as u8) {
                            out.push(Mv {
                                from: s as u8,
                                to: t as u8,
                                promo: 0,
                                flag: 2,
                            });
                        }
                    }
                }
                N => {
                    for (df, dr) in KN {
                        let (x, y) = (f + df, r + dr);
                        if on(x, y) {
                            let d = self.b[sq(x, y)];
                            if d == EMPTY || colour(d) == them {
                                out.push(Mv {
                                    from: s as u8,
                                    to: sq(x, y) as u8,
                                    promo: 0,
                                    flag: 0,
                                });
                            }
                        }
                    }
                }
                K => {
                    for (df, dr) in KG {
                        let (x, y) = (f + df, r + dr);
                        if on(x, y) {
                            let d = self.b[sq(x, y)];
                            if d == EMPTY || colour(d) == them {
                                out.push(Mv {
                                    from: s as u8,
                                    to: sq(x, y) as u8,
                                    promo: 0,
                                    flag: 0,
                                });
                            }
                        }
                    }
                    let hr = if us == 0 { 0 } else { 7 };
                    if s == sq(4, hr) && !self.attacked(s, them) {
                        if self.cr[(us * 2) as usize]
                            && self.b[sq(7, hr)] == mk(us, R)
                            && self.b[sq(5, hr)] == EMPTY
                            && self.b[sq(6, hr)] == EMPTY
                            && !self.attacked(sq(5, hr), them)
                        {
                            out.push(Mv {
                                from: s as u8,
                                to: sq(6, hr) as u8,
                                promo: 0,
                                flag: 3,
                            });
                        }
                        if self.cr[(us * 2 + 1) as usize]
                            && self.b[sq(0, hr)] == mk(us, R)
                            && self.b[sq(1, hr)] == EMPTY
                            && self.b[sq(2, hr)] == EMPTY
                            && self.b[sq(3, hr)] == EMPTY
                            && !self.attacked(sq(3, hr), them)
                        {
                            out.push(Mv {
                                from: s as u8,
                                to: sq(2, hr) as u8,
                                promo: 0,
                                flag: 4,
                            });
                        }
                    }
                }
                k => {
                    let dirs: &[(i32, i32)] = match k {
                        B => &DIAG,
                        R => &ORTH,
                        _ => &KG,
                    };
                    for &(df, dr) in dirs {
                        let (mut x, mut y) = (f + df, r + dr);
                        while on(x, y) {
                            let d = self.b[sq(x, y)];
                            if d == EMPTY {
                                out.push(Mv {
                                    from: s as u8,
                                    to: sq(x, y) as u8,
                                    promo: 0,
                                    flag: 0,
                                });
                            } else {
                                if colour(d) == them {
                                    out.push(Mv {
                                        from: s as u8,
                                        to: sq(x, y) as u8,
                                        promo: 0,
                                        flag: 0,
                                    });
                                }
                                break;
                            }
                            x += df;
                            y += dr;
                        }
                    }
                }
            }
        }
    }

    pub fn pseudo_vec(&self) -> Vec<Mv> {
        let mut v = Vec::with_capacity(64);
        self.pseudo(&mut v);
        v
    }

    /// is the move a capture (destination occupied by an enemy man, or en passant)?
    pub fn is_capture(&self, m: Mv) -> bool {
        m.flag == 2 || self.b[m.to as usize] != EMPTY
    }

    /// Position after the move, by the rules. Counters are u32 and simply incremented; clamping to
    /// a representation limit is the caller's business.
    pub fn apply(&self, m: Mv) -> Pos {
        let mut n = *self;
        let us = self.stm;
        let c = self.b[m.from as usize];
        let cap = self.b[m.to as usize];
        n.b[m.from as usize] = EMPTY;
        n.b[m.to as usize] = if m.promo != 0 { mk(us, m.promo) } else { c };
        n.ep = None;
        match m.flag {
            1 => n.ep = Some(((m.from as usize + m.to as usize) / 2) as u8),
            2 => {
                // the captured pawn stands beside the capturer, on the destination's file
                let vr = rank_of(m.from as usize);
                let vf = file_of(m.to as usize);
                n.b[sq(vf, vr)] = EMPTY;
            }
            3 => {
                let hr = rank_of(m.from as usize);
                n.b[sq(7, hr)] = EMPTY;
                n.b[sq(5, hr)] = mk(us, R);
            }
            4 => {
                let hr = rank_of(m.from as usize);
                n.b[sq(0, hr)] = EMPTY;
                n.b[sq(3, hr)] = mk(us, R);
            }
            _ => {}
        }
        // castling rights: lost when the king or the rook leaves its home square, or when
        // something captures on a rook's home square
        for (i, (rf, hr)) in [(7, 0), (0, 0), (7, 7), (0, 7)].iter().enumerate() {
            let ks = sq(4, *hr) as u8;
            let rs = sq(*rf, *hr) as u8;
            if m.from == ks || m.from == rs || m.to == rs {
                n.cr[i] = false;
            }
        }
        n.hmc = if kind(c) == P || cap != EMPTY || m.flag == 2 {
            0
        } else {
            self.hmc + 1
        };
        if us == 1 {
            n.fmn = self.fmn + 1;
        }
        n.stm = 1 - us;
        n
    }

    pub fn is_legal(&self, m: Mv) -> bool {
        !self.apply(m).in_check(self.stm)
    }

    pub fn legal(&self) -> Vec<Mv> {
        let mut ps = self.pseudo_vec();
        let us = self.stm;
        ps.retain(|&m| !self.apply(m).in_check(us));
        ps
    }

    pub fn perft(&self, d: u32) -> u64 {
        if d == 0 {
            return 1;
        }
        let l = self.legal();
        if d == 1 {
            return l.len() as u64;
        }
        l.iter().map(|&m| self.apply(m).perft(d - 1)).sum()
    }

    /// position identity for repetition purposes
    pub fn ident(&self) -> ([u8; 64], u8, [bool; 4], Option<u8>) {
        (self.b, self.stm, self.cr, self.ep)
    }

    pub fn men_count(&self) -> usize {
        self.b.iter().filter(|&&c| c != EMPTY).count()
    }
}
