//! Validation of raw boards and outcome classification, by the rules.

use super::pos::*;

/// An unvalidated board: like `Pos`, but the en-passant information is the square of the pawn
/// that is claimed to have just made a double step (any square at all), as owlchess's raw board
/// stores it.
#[derive(Clone, Copy, PartialEq, Eq, Debug, Hash)]
pub struct RawPos {
    pub b: [u8; 64],
    pub stm: u8,
    pub cr: [bool; 4],
    pub eps: Option<u8>,
    pub hmc: u32,
    pub fmn: u32,
}

#[derive(Clone, Copy, PartialEq, Eq, Debug, Hash, PartialOrd, Ord)]
pub enum Reason {
    InvalidEp(u8),
    TooManyPieces(u8),
    NoKing(u8),
    TooManyKings(u8),
    InvalidPawn(u8),
    OppKingAttacked,
}

/// rank (0-based) on which a pawn that can be captured en passant stands, seen from the side to
/// move: White to move captures a black pawn standing on the 5th rank (index 4)
pub fn ep_pawn_rank(stm: u8) -> i32 {
    if stm == 0 {
        4
    } else {
        3
    }
}

impl RawPos {
    pub fn from_pos(p: &Pos) -> RawPos {
        RawPos {
            b: p.b,
            stm: p.stm,
            cr: p.cr,
            eps: p.ep.map(|t| {
                let f = file_of(t as usize);
                sq(f, ep_pawn_rank(p.stm)) as u8
            }),
            hmc: p.hmc,
            fmn: p.fmn,
        }
    }

    /// All reasons for which the board is invalid (empty = valid).
    pub fn reasons(&self) -> Vec<Reason> {
        let mut errs = Vec::new();
        if let Some(e) = self.eps {
            if rank_of(e as usize) != ep_pawn_rank(self.stm) {
                errs.push(Reason::InvalidEp(e));
            }
        }
        let mut kings = [0usize; 2];
        for col in 0..2u8 {
            let n = (0..64)
                .filter(|&s| self.b[s] != EMPTY && colour(self.b[s]) == col)
                .count();
            if n > 16 {
                errs.push(Reason::TooManyPieces(col));
            }
            let k = (0..64).filter(|&s| self.b[s] == mk(col, K)).count();
            kings[col as usize] = k;
            if k == 0 {
                errs.push(Reason::NoKing(col));
            }
            if k > 1 {
                errs.push(Reason::TooManyKings(col));
            }
        }
        for s in 0..64 {
            if self.b[s] != EMPTY && kind(self.b[s]) == P && (s / 8 == 0 || s / 8 == 7) {
                errs.push(Reason::InvalidPawn(s as u8));
            }
        }
        // "the side not to move is in check" needs that side's king to be unique
        let opp = 1 - self.stm;
        if kings[opp as usize] == 1 {
            let p = Pos {
                b: self.b,
                stm: self.stm,
                cr: [false; 4],
                ep: None,
                hmc: 0,
                fmn: 1,
            };
            if p.in_check(opp) {
                errs.push(Reason::OppKingAttacked);
            }
        }
        errs
    }

    /// Validation: the normalised position, or the set of reasons.
    /// Normalisation drops (only) castling rights whose king or rook is not at home, and an
    /// en-passant mark without an enemy pawn on the marked square or with an occupied square
    /// behind it.
    pub fn validate(&self) -> Result<Pos, Vec<Reason>> {
        let errs = self.reasons();
        if !errs.is_empty() {
            return Err(errs);
        }
        let mut cr = self.cr;
        for (i, (rf, hr, col)) in [(7, 0, 0u8), (0, 0, 0), (7, 7, 1), (0, 7, 1)]
            .iter()
            .enumerate()
        {
            if self.b[sq(4, *hr)] != mk(*col, K) || self.b[sq(*rf, *hr)] != mk(*col, R) {
                cr[i] = false;
            }
        }
        let ep = self.eps.and_then(|e| {
            let e = e as usize;
            // the square "behind" the pawn is the one it passed over
            let behind = if self.stm == 0 { e + 8 } else { e - 8 };
            if self.b[e] == mk(1 - self.stm, P) && self.b[behind] == EMPTY {
                Some(behind as u8)
            } else {
                None
            }
        });
        Ok(Pos {
            b: self.b,
            stm: self.stm,
            cr,
            ep,
            hmc: self.hmc,
            fmn: self.fmn,
        })
    }
}

/// is the position valid *and* already in normal form?
pub fn is_valid_normal(p: &Pos) -> bool {
    match RawPos::from_pos(p).validate() {
        Ok(q) => q == *p,
        Err(_) => false,
    }
}

#[derive(Clone, Copy, PartialEq, Eq, Debug, Hash, PartialOrd, Ord)]
pub enum MOut {
    /// checkmate, won by the given side
    Mate(u8),
    Stalemate,
    Insufficient,
    Moves75,
    Repeat5,
    Moves50,
    Repeat3,
}

impl MOut {
    /// 3 forced, 2 mandatory, 1 claimable
    pub fn tier(&self) -> u8 {
        match self {
            MOut::Mate(_) | MOut::Stalemate => 3,
            MOut::Insufficient | MOut::Moves75 | MOut::Repeat5 => 2,
            MOut::Moves50 | MOut::Repeat3 => 1,
        }
    }
}

/// besides the two kings the board holds nothing, or a single knight, or only bishops that all
/// stand on squares of one colour
pub fn insufficient_material(p: &Pos) -> bool {
    let mut men = Vec::new();
    for s in 0..64 {
        let c = p.b[s];
        if c != EMPTY && kind(c) != K {
            men.push((kind(c), (s % 8 + s / 8) & 1));
        }
    }
    men.is_empty()
        || (men.len() == 1 && men[0].0 == N)
        || (men.iter().all(|m| m.0 == B) && men.iter().all(|m| m.1 == men[0].1))
}

/// Applicable outcomes of a position of the highest applicable tier (empty = game goes on).
/// `occurrences` = how often the position has occurred in the game so far (1 for a bare board).
pub fn outcomes(p: &Pos, occurrences: usize) -> (u8, Vec<MOut>) {
    let l = p.legal();
    if l.is_empty() {
        return (
            3,
            vec![if p.in_check(p.stm) {
                MOut::Mate(1 - p.stm)
            } else {
                MOut::Stalemate
            }],
        );
    }
    let mut r = Vec::new();
    if insufficient_material(p) {
        r.push(MOut::Insufficient);
    }
    if p.hmc >= 150 {
        r.push(MOut::Moves75);
    }
    if occurrences >= 5 {
        r.push(MOut::Repeat5);
    }
    if !r.is_empty() {
        return (2, r);
    }
    if p.hmc >= 100 {
        r.push(MOut::Moves50);
    }
    if occurrences >= 3 {
        r.push(MOut::Repeat3);
    }
    if !r.is_empty() {
        return (1, r);
    }
    (0, r)
}

/// documented filter classification: 0 = Force, 1 = Strict, 2 = Relaxed
pub fn passes(o: MOut, filter: u8) -> bool {
    match o.tier() {
        3 => true,
        2 => filter >= 1,
        _ => filter >= 2,
    }
}
