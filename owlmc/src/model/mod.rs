pub mod chain;
pub mod pos;
pub mod rules;
pub mod text;

pub use pos::*;
pub use rules::*;
