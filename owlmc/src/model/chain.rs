//! Model of a move chain: start position, accepted moves, positions, stored outcome.

use super::pos::*;
use super::rules::{outcomes, passes, MOut};

#[derive(Clone, Debug, PartialEq, Eq)]
pub struct MChain {
    pub start: Pos,
    pub moves: Vec<Mv>,
    /// positions[i] = position before move i; positions.last() = current position
    pub positions: Vec<Pos>,
    pub outcome: Option<MOut>,
}

impl MChain {
    pub fn new(start: Pos) -> MChain {
        MChain {
            start,
            moves: Vec::new(),
            positions: vec![start],
            outcome: None,
        }
    }

    pub fn cur(&self) -> &Pos {
        self.positions.last().unwrap()
    }

    /// push a move if it is legal; returns whether it was accepted
    pub fn push(&mut self, m: Mv) -> bool {
        let cur = *self.cur();
        if !cur.legal().contains(&m) {
            return false;
        }
        self.moves.push(m);
        self.positions.push(cur.apply(m));
        true
    }

    pub fn pop(&mut self) -> Option<Mv> {
        let m = self.moves.pop()?;
        self.positions.pop();
        self.outcome = None;
        Some(m)
    }

    /// how often the current position (squares, side, rights, ep) occurred in the game so far
    pub fn occurrences(&self) -> usize {
        let id = self.cur().ident();
        self.positions.iter().filter(|p| p.ident() == id).count()
    }

    /// multiset of position identities as sorted (ident, count) pairs
    pub fn ident_counts(&self) -> Vec<usize> {
        // counts per distinct identity, sorted
        let mut ids: Vec<_> = self.positions.iter().map(|p| p.ident()).collect();
        ids.sort();
        let mut res = Vec::new();
        let mut i = 0;
        while i < ids.len() {
            let mut j = i;
            while j < ids.len() && ids[j] == ids[i] {
                j += 1;
            }
            res.push(j - i);
            i = j;
        }
        res.sort();
        res
    }

    pub fn calc(&self) -> (u8, Vec<MOut>) {
        outcomes(self.cur(), self.occurrences())
    }

    /// would set_auto_outcome(filter) store something? returns the allowed stored values
    pub fn auto(&self, filter: u8) -> Vec<MOut> {
        let (_, os) = self.calc();
        os.into_iter().filter(|o| passes(*o, filter)).collect()
    }
}
