//! Independent text formats: FEN reader/writer, UCI writer/reader, SAN writer and a permissive
//! SAN descriptor reader. Written from the format conventions, not from owlchess.

use super::pos::*;
use super::rules::RawPos;

pub fn sq_name(s: usize) -> String {
    let mut r = String::new();
    r.push((b'a' + (s % 8) as u8) as char);
    r.push((b'1' + (s / 8) as u8) as char);
    r
}

pub fn parse_sq(s: &[u8]) -> Option<usize> {
    if s.len() != 2 {
        return None;
    }
    if !(b'a'..=b'h').contains(&s[0]) || !(b'1'..=b'8').contains(&s[1]) {
        return None;
    }
    Some(sq((s[0] - b'a') as i32, (s[1] - b'1') as i32))
}

pub fn cell_char(c: u8) -> char {
    let ch = match kind(c) {
        P => 'p',
        N => 'n',
        B => 'b',
        R => 'r',
        Q => 'q',
        K => 'k',
        _ => '?',
    };
    if colour(c) == 0 {
        ch.to_ascii_uppercase()
    } else {
        ch
    }
}

pub fn piece_letter(k: u8) -> char {
    match k {
        N => 'N',
        B => 'B',
        R => 'R',
        Q => 'Q',
        K => 'K',
        _ => 'P',
    }
}

fn board_field(b: &[u8; 64]) -> String {
    let mut s = String::new();
    for r in (0..8).rev() {
        let mut empty = 0;
        for f in 0..8 {
            let c = b[sq(f, r)];
            if c == EMPTY {
                empty += 1;
            } else {
                if empty > 0 {
                    s.push((b'0' + empty) as char);
                    empty = 0;
                }
                s.push(cell_char(c));
            }
        }
        if empty > 0 {
            s.push((b'0' + empty) as char);
        }
        if r > 0 {
            s.push('/');
        }
    }
    s
}

fn castling_field(cr: &[bool; 4]) -> String {
    let mut s = String::new();
    for (i, ch) in ['K', 'Q', 'k', 'q'].iter().enumerate() {
        if cr[i] {
            s.push(*ch);
        }
    }
    if s.is_empty() {
        s.push('-');
    }
    s
}

/// canonical six-field FEN record
pub fn fen(p: &Pos) -> String {
    format!(
        "{} {} {} {} {} {}",
        board_field(&p.b),
        if p.stm == 0 { 'w' } else { 'b' },
        castling_field(&p.cr),
        match p.ep {
            Some(t) => sq_name(t as usize),
            None => "-".to_string(),
        },
        p.hmc,
        p.fmn
    )
}

/// FEN of a raw board whose en-passant mark is rank-consistent (or absent): the target square is
/// the marked file on the 6th rank for White to move, the 3rd for Black to move
pub fn fen_raw(p: &RawPos) -> String {
    format!(
        "{} {} {} {} {} {}",
        board_field(&p.b),
        if p.stm == 0 { 'w' } else { 'b' },
        castling_field(&p.cr),
        match p.eps {
            Some(e) => sq_name(sq(file_of(e as usize), if p.stm == 0 { 5 } else { 2 })),
            None => "-".to_string(),
        },
        p.hmc,
        p.fmn
    )
}

/// Independent reader for canonical six-field FEN records. Returns None for anything that is not
/// a canonical record (this reader is only ever applied to text that should be canonical).
pub fn read_fen(s: &str) -> Option<Pos> {
    let fields: Vec<&str> = s.split(' ').collect();
    if fields.len() != 6 {
        return None;
    }
    let mut b = [EMPTY; 64];
    let rows: Vec<&str> = fields[0].split('/').collect();
    if rows.len() != 8 {
        return None;
    }
    for (i, row) in rows.iter().enumerate() {
        let r = 7 - i as i32;
        let mut f = 0i32;
        let mut last_digit = false;
        for ch in row.chars() {
            if let Some(d) = ch.to_digit(10) {
                if d == 0 || d > 8 || last_digit {
                    return None; // canonical: no 0, no two digits in a row
                }
                f += d as i32;
                last_digit = true;
            } else {
                last_digit = false;
                let k = match ch.to_ascii_lowercase() {
                    'p' => P,
                    'n' => N,
                    'b' => B,
                    'r' => R,
                    'q' => Q,
                    'k' => K,
                    _ => return None,
                };
                if f >= 8 {
                    return None;
                }
                b[sq(f, r)] = mk(if ch.is_ascii_lowercase() { 1 } else { 0 }, k);
                f += 1;
            }
            if f > 8 {
                return None;
            }
        }
        if f != 8 {
            return None;
        }
    }
    let stm = match fields[1] {
        "w" => 0,
        "b" => 1,
        _ => return None,
    };
    let mut cr = [false; 4];
    if fields[2] != "-" {
        let mut lastidx = -1i32;
        for ch in fields[2].chars() {
            let i = match ch {
                'K' => 0,
                'Q' => 1,
                'k' => 2,
                'q' => 3,
                _ => return None,
            };
            if i as i32 <= lastidx {
                return None; // canonical order KQkq, no duplicates
            }
            lastidx = i as i32;
            cr[i] = true;
        }
        if lastidx < 0 {
            return None;
        }
    }
    let ep = if fields[3] == "-" {
        None
    } else {
        let t = parse_sq(fields[3].as_bytes())?;
        let want = if stm == 0 { 5 } else { 2 };
        if rank_of(t) != want {
            return None;
        }
        Some(t as u8)
    };
    let num = |x: &str| -> Option<u32> {
        if x.is_empty() || (x.len() > 1 && x.starts_with('0')) || !x.bytes().all(|c| c.is_ascii_digit()) {
            return None;
        }
        x.parse().ok()
    };
    Some(Pos {
        b,
        stm,
        cr,
        ep,
        hmc: num(fields[4])?,
        fmn: num(fields[5])?,
    })
}

pub fn promo_char(p: u8) -> char {
    match p {
        N => 'n',
        B => 'b',
        R => 'r',
        Q => 'q',
        _ => '?',
    }
}

/// UCI coordinate notation
pub fn uci(m: Mv) -> String {
    let mut s = sq_name(m.from as usize);
    s.push_str(&sq_name(m.to as usize));
    if m.promo != 0 {
        s.push(promo_char(m.promo));
    }
    s
}

/// (from, to, promo) of a syntactically valid UCI string `[a-h][1-8][a-h][1-8][nbrq]?`
pub fn parse_uci(s: &str) -> Option<(u8, u8, u8)> {
    let b = s.as_bytes();
    if b.len() != 4 && b.len() != 5 {
        return None;
    }
    let from = parse_sq(&b[0..2])?;
    let to = parse_sq(&b[2..4])?;
    let promo = if b.len() == 5 {
        match b[4] {
            b'n' => N,
            b'b' => B,
            b'r' => R,
            b'q' => Q,
            _ => return None,
        }
    } else {
        0
    };
    Some((from as u8, to as u8, promo))
}

/// Standard algebraic notation of a *legal* move `m` of `p`; `legal` = the legal moves of `p`.
pub fn san(p: &Pos, legal: &[Mv], m: Mv) -> String {
    let mut s = String::new();
    if m.flag == 3 {
        s.push_str("O-O");
    } else if m.flag == 4 {
        s.push_str("O-O-O");
    } else {
        let c = p.b[m.from as usize];
        let k = kind(c);
        let capture = p.is_capture(m);
        if k == P {
            if capture {
                s.push((b'a' + m.from % 8) as char);
                s.push('x');
            }
            s.push_str(&sq_name(m.to as usize));
            if m.promo != 0 {
                s.push('=');
                s.push(piece_letter(m.promo));
            }
        } else {
            s.push(piece_letter(k));
            // minimal disambiguation among the other *legal* moves of the same kind of piece to
            // the same destination
            let others: Vec<&Mv> = legal
                .iter()
                .filter(|o| {
                    **o != m && o.to == m.to && o.flag == 0 && kind(p.b[o.from as usize]) == k
                })
                .collect();
            if !others.is_empty() {
                let same_file = others.iter().any(|o| o.from % 8 == m.from % 8);
                let same_rank = others.iter().any(|o| o.from / 8 == m.from / 8);
                if !same_file {
                    s.push((b'a' + m.from % 8) as char);
                } else if !same_rank {
                    s.push((b'1' + m.from / 8) as char);
                } else {
                    s.push((b'a' + m.from % 8) as char);
                    s.push((b'1' + m.from / 8) as char);
                }
            }
            if capture {
                s.push('x');
            }
            s.push_str(&sq_name(m.to as usize));
        }
    }
    let n = p.apply(m);
    if n.in_check(n.stm) {
        if n.legal().is_empty() {
            s.push('#');
        } else {
            s.push('+');
        }
    }
    s
}

/// What a player would write for a pseudo-legal move without thinking about legality: piece
/// letter, capture mark, destination, promotion - no disambiguation, no check marks
pub fn san_naive(p: &Pos, m: Mv) -> String {
    if m.flag == 3 {
        return "O-O".to_string();
    }
    if m.flag == 4 {
        return "O-O-O".to_string();
    }
    let k = kind(p.b[m.from as usize]);
    let capture = p.is_capture(m);
    let mut s = String::new();
    if k == P {
        if capture {
            s.push((b'a' + m.from % 8) as char);
            s.push('x');
        }
        s.push_str(&sq_name(m.to as usize));
        if m.promo != 0 {
            s.push('=');
            s.push(piece_letter(m.promo));
        }
    } else {
        s.push(piece_letter(k));
        if capture {
            s.push('x');
        }
        s.push_str(&sq_name(m.to as usize));
    }
    s
}

/// What a SAN-like text says about the move, read permissively.
#[derive(Clone, Debug, PartialEq, Eq)]
pub enum Desc {
    Castle(bool), // true = king side
    /// coordinate form: from, to, promo
    Coord(u8, u8, u8),
    Piece {
        piece: u8,
        from_file: Option<u8>,
        from_rank: Option<u8>,
        to: u8,
    },
    Pawn {
        from_file: Option<u8>,
        to: u8,
        promo: u8,
    },
    /// abbreviated pawn capture: origin file, destination file, promotion
    PawnShort { from_file: u8, to_file: u8, promo: u8 },
}

/// Permissive reader: returns None for texts it cannot interpret.
pub fn read_san(text: &str) -> Option<Desc> {
    if !text.is_ascii() {
        return None;
    }
    let mut b = text.as_bytes();
    // trailing check / mate marks
    if b.ends_with(b"++") {
        b = &b[..b.len() - 2];
    } else if b.ends_with(b"+") || b.ends_with(b"#") || b.ends_with(b"x") {
        // (a trailing `x` is an old-fashioned mate mark; owlchess reads it as such)
        b = &b[..b.len() - 1];
    }
    if b == b"O-O" || b == b"0-0" {
        return Some(Desc::Castle(true));
    }
    if b == b"O-O-O" || b == b"0-0-0" {
        return Some(Desc::Castle(false));
    }
    if b.is_empty() {
        return None;
    }
    if let Some((f, t, p)) = std::str::from_utf8(b).ok().and_then(parse_uci) {
        return Some(Desc::Coord(f, t, p));
    }
    let is_file = |c: u8| (b'a'..=b'h').contains(&c);
    let is_rank = |c: u8| (b'1'..=b'8').contains(&c);
    let piece_of = |c: u8| match c {
        b'N' => Some(N),
        b'B' => Some(B),
        b'R' => Some(R),
        b'Q' => Some(Q),
        b'K' => Some(K),
        _ => None,
    };
    if let Some(piece) = piece_of(b[0]) {
        let rest = &b[1..];
        if rest.len() < 2 {
            return None;
        }
        let to = parse_sq(&rest[rest.len() - 2..])? as u8;
        let mut mid = &rest[..rest.len() - 2];
        let mut from_file = None;
        let mut from_rank = None;
        if let Some(&c) = mid.first() {
            if is_file(c) {
                from_file = Some(c - b'a');
                mid = &mid[1..];
            }
        }
        if let Some(&c) = mid.first() {
            if is_rank(c) {
                from_rank = Some(c - b'1');
                mid = &mid[1..];
            }
        }
        if let Some(&c) = mid.first() {
            if c == b'x' || c == b':' {
                mid = &mid[1..];
            }
        }
        if !mid.is_empty() {
            return None;
        }
        return Some(Desc::Piece {
            piece,
            from_file,
            from_rank,
            to,
        });
    }
    // pawn move: optional promotion suffix
    let mut promo = 0u8;
    if let Some(&last) = b.last() {
        if let Some(pp) = piece_of(last) {
            if pp != K {
                promo = pp;
                b = &b[..b.len() - 1];
                if b.last() == Some(&b'=') {
                    b = &b[..b.len() - 1];
                }
            }
        }
    }
    if b.len() == 2 && is_file(b[0]) && is_file(b[1]) {
        return Some(Desc::PawnShort {
            from_file: b[0] - b'a',
            to_file: b[1] - b'a',
            promo,
        });
    }
    if b.len() < 2 {
        return None;
    }
    let to = parse_sq(&b[b.len() - 2..])? as u8;
    let mid = &b[..b.len() - 2];
    match mid.len() {
        0 => Some(Desc::Pawn {
            from_file: None,
            to,
            promo,
        }),
        2 if is_file(mid[0]) && (mid[1] == b'x' || mid[1] == b':') => Some(Desc::Pawn {
            from_file: Some(mid[0] - b'a'),
            to,
            promo,
        }),
        _ => None,
    }
}

/// does the text carry a capture mark (`x` or `:`) in its body (a trailing `x` is a mate mark)?
pub fn has_capture_mark(text: &str) -> bool {
    let b = text.as_bytes();
    let body = if b.ends_with(b"x") { &b[..b.len() - 1] } else { b };
    body.iter().any(|&c| c == b'x' || c == b':')
}

/// short abbreviated-capture text of a pawn capture: origin file, destination file, promotion
pub fn san_short(m: Mv) -> String {
    let mut s = String::new();
    s.push((b'a' + m.from % 8) as char);
    s.push((b'a' + m.to % 8) as char);
    if m.promo != 0 {
        s.push('=');
        s.push(piece_letter(m.promo));
    }
    s
}

/// does the legal move `m` of `p` agree with what the descriptor says (piece, destination, origin
/// hints, promotion)?
pub fn agrees(p: &Pos, m: Mv, d: &Desc) -> bool {
    let k = kind(p.b[m.from as usize]);
    match *d {
        Desc::Castle(king_side) => m.flag == if king_side { 3 } else { 4 },
        Desc::Coord(f, t, pr) => m.from == f && m.to == t && m.promo == pr,
        Desc::Piece {
            piece,
            from_file,
            from_rank,
            to,
        } => {
            k == piece
                && m.flag == 0
                && m.to == to
                && from_file.map_or(true, |f| m.from % 8 == f)
                && from_rank.map_or(true, |r| m.from / 8 == r)
        }
        Desc::Pawn {
            from_file,
            to,
            promo,
        } => {
            k == P
                && m.to == to
                && m.promo == promo
                && match from_file {
                    // "e4": a non-capturing pawn move on its own file
                    None => m.from % 8 == m.to % 8,
                    // "exd5": a capture from the named file
                    Some(f) => m.from % 8 == f && m.from % 8 != m.to % 8,
                }
        }
        Desc::PawnShort {
            from_file,
            to_file,
            promo,
        } => {
            k == P
                && m.from % 8 == from_file
                && m.to % 8 == to_file
                && from_file != to_file
                && m.promo == promo
        }
    }
}
