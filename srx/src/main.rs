//! Cross-check of the hand-rolled chain explorer with stateright's BFS.
//!
//! The same chain games, the same operation alphabet and the same oracle (`check_state` of
//! owlmc's props/chains.rs, included by path) are explored by stateright over the canonical
//! chain state (accepted moves + stored outcome), bounded by the length of the move list. For
//! every state the property rebuilds the REAL MoveChain by replaying the operations that reached
//! it and evaluates the oracle. The number of unique states must equal the number the hand-rolled
//! BFS reports under the same bound; a mismatch is a machinery error (exit 2), an oracle failure
//! is a violation (exit 1).
#![allow(dead_code)]

#[path = "../../owlmc/src/bind.rs"]
mod bind;
#[path = "../../owlmc/src/engine.rs"]
mod engine;
#[path = "../../owlmc/src/model/mod.rs"]
mod model;
#[path = "../../owlmc/src/universe.rs"]
mod universe;
#[path = "../../owlmc/src/props/chains.rs"]
mod chains_impl;
mod props {
    pub(crate) use crate::chains_impl as chains;
}

use engine::Ctx;
use props::chains::*;
use stateright::{Checker, Model, Property};

#[derive(Clone, Debug, Hash, PartialEq, Eq)]
struct St {
    /// the operations that reached this state are NOT part of the identity; the identity is the
    /// canonical chain state. The witness path is kept out of Hash/Eq by storing it separately.
    moves: Vec<model::Mv>,
    stored: Stored,
}

struct ChainModel {
    game: Game,
    ops: Vec<Op>,
    max_len: usize,
    family: u8,
}

fn rebuild(game: &Game, moves: &[model::Mv], stored: Stored) -> Option<Node> {
    // replay the accepted moves on a fresh real chain + model chain
    let mut node = root(game)?;
    let mut ctx = Ctx::new();
    for m in moves {
        let t = model::text::uci(*m);
        let idx = game.alphabet.iter().position(|a| *a == t)?;
        node = apply(&mut ctx, game, &node, &Op::Push(idx, 0), 0)?;
    }
    match stored {
        Stored::None => {}
        Stored::Foreign => {
            node = apply(&mut ctx, game, &node, &Op::Reset(true), 0)?;
        }
        Stored::Model(_) => {
            // reach the stored model outcome through set_auto_outcome(Relaxed)
            node = apply(&mut ctx, game, &node, &Op::Auto(2), 0)?;
        }
    }
    if node.stored != stored {
        return None;
    }
    Some(node)
}

impl Model for ChainModel {
    type State = St;
    type Action = Op;

    fn init_states(&self) -> Vec<St> {
        vec![St { moves: vec![], stored: Stored::None }]
    }

    fn actions(&self, _s: &St, actions: &mut Vec<Op>) {
        actions.extend(self.ops.iter().cloned());
    }

    fn next_state(&self, s: &St, a: Op) -> Option<St> {
        let node = rebuild(&self.game, &s.moves, s.stored)?;
        let mut ctx = Ctx::new();
        let n = apply(&mut ctx, &self.game, &node, &a, 0)?;
        Some(St { moves: n.model.moves.clone(), stored: n.stored })
    }

    fn within_boundary(&self, s: &St) -> bool {
        s.moves.len() <= self.max_len
    }

    fn properties(&self) -> Vec<Property<Self>> {
        vec![Property::always("chain oracle holds", |m: &ChainModel, s: &St| {
            match rebuild(&m.game, &s.moves, s.stored) {
                Some(node) => {
                    let mut ctx = Ctx::new();
                    check_state(&mut ctx, &m.game, &node, m.family);
                    ctx.nviol == 0
                }
                None => false,
            }
        })]
    }
}

/// the hand-rolled explorer under the same bound: BFS until the frontier is empty, states whose
/// move list is longer than `max_len` are not kept
fn own_count(game: &Game, max_len: usize, family: u8) -> (usize, u64) {
    use std::collections::HashSet;
    let ops = ops_of(game);
    let Some(r) = root(game) else { return (0, 0) };
    let mut ctx = Ctx::new();
    let mut seen: HashSet<(Vec<model::Mv>, Stored)> = HashSet::new();
    seen.insert((vec![], Stored::None));
    check_state(&mut ctx, game, &r, family);
    let mut frontier = vec![r];
    while !frontier.is_empty() {
        let mut next = Vec::new();
        for node in &frontier {
            for op in &ops {
                let Some(n) = apply(&mut ctx, game, node, op, family) else { continue };
                if n.model.moves.len() > max_len {
                    continue;
                }
                let key = (n.model.moves.clone(), n.stored);
                if seen.insert(key) {
                    check_state(&mut ctx, game, &n, family);
                    next.push(n);
                }
            }
        }
        frontier = next;
    }
    (seen.len(), ctx.nviol)
}

fn main() {
    engine::install_panic_hook();
    let thorough = std::env::args().any(|a| a == "thorough");
    let id = if std::env::args().any(|a| a == "C14") { "C14" } else { "C13" };
    let family: u8 = if id == "C14" { 14 } else { 13 };
    let out_dir = std::env::var("OWLMC_DIR").unwrap_or_else(|_| "/verif".into());
    let games = games(false);
    // (name prefix, bound on the length of the move list)
    let picks: Vec<(&str, usize)> = if thorough {
        vec![("G1 ", 16), ("G2 ", 3), ("G3 ", 5), ("G4 ", 5), ("G5a", 6), ("G8a", 16), ("G9 ", 6), ("G10", 8), ("G11 ", 4), ("G6 ", 7), ("G7a", 5)]
    } else {
        vec![("G1 ", 12), ("G3 ", 4), ("G4 ", 4), ("G9 ", 5), ("G10", 6), ("G6 ", 6), ("G7a", 4)]
    };
    let mut bad = 0;
    for (prefix, max_len) in picks {
        let Some(game) = games.iter().find(|g| g.name.starts_with(prefix)).cloned() else { continue };
        let t0 = std::time::Instant::now();
        let (own, own_viol) = own_count(&game, max_len, family);
        let model = ChainModel { ops: ops_of(&game), game: game.clone(), max_len, family };
        let checker = model.checker().threads(8).spawn_bfs().join();
        let sr = checker.unique_state_count();
        let disc = checker.discoveries();
        println!(
            "SRX game=\"{}\" max_len={} own_states={} stateright_states={} own_violations={} stateright_discoveries={} wall={:.1}s",
            game.name, max_len, own, sr, own_viol, disc.len(), t0.elapsed().as_secs_f64()
        );
        if let Some((_, path)) = disc.into_iter().next() {
            let ops: Vec<String> = path.into_actions().iter().map(|o| format!("{:?}", o)).collect();
            let dir = format!("{}/replays/{}", out_dir, id);
            let _ = std::fs::create_dir_all(&dir);
            let file = format!("{}/srx-violation.json", dir);
            let v = serde_json::json!({"property": id, "case": {"kind": "chain", "game": game.name, "path": ops}, "message": "stateright: the chain oracle fails in a state reached by this operation path"});
            let _ = std::fs::write(&file, serde_json::to_string_pretty(&v).unwrap());
            println!("VIOLATION property={} replay={}", id, file);
            bad |= 1;
        } else if own_viol > 0 {
            println!("SRX-MISMATCH game=\"{}\": the hand-rolled explorer reports violations stateright does not", game.name);
            bad |= 2;
        } else if own != sr {
            println!("SRX-MISMATCH game=\"{}\": state counts differ", game.name);
            bad |= 2;
        }
    }
    std::process::exit(if bad & 1 != 0 { 1 } else if bad != 0 { 2 } else { 0 });
}
